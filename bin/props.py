"""Per-property configuration of bin/check: which models are checked exhaustively, which generator
drives the real code, the non-triviality rule used to count coverage, known-finding matchers."""
import hashlib
import json
import re

COMMON_ASSUMPTIONS = [
    "TLC 1.8.0 and the CommunityModules Java overrides (FoldLeft, Json, IOUtils) are correct",
    "harness cell encoder is order- and equality-preserving (self-tested at every start) and bytes.Equal-style digests of observations",
    "function tables are filled by calling the registered reference function; a missing entry is an infrastructure error, never a verdict",
]


def _op(e):
    return e.get("op")


def nt_always(e):
    return True


def nt_c08(e):
    if e["op"] == "New":
        return len(e["a"]["data"]) >= 1
    return e["op"] in ("Select", "Drop", "Slice", "Copy") and e["obs"]["len"] != -2


def leaves(c):
    if c.get("k") == "leaf":
        return 1
    return sum(leaves(s) for s in c.get("subs", []))


def nt_c02(e):
    if e["op"] != "Filter":
        return False
    n = e["obs"]["len"]
    return n > 0 and leaves(e["a"]["clause"]) >= 2


def nt_c03(e):
    return e["op"] == "Sort" and e["obs"]["len"] > 12 and len(e["a"]["orders"]) >= 1


def nt_c04(e):
    return (e["op"] == "GroupBy" and len(e.get("groups", [])) >= 2) or (e["op"] == "Aggregate" and e["obs"]["len"] >= 2)


def nt_c05(e):
    return e["op"] == "Distinct" and e["obs"]["len"] >= 2


def nt_c06(e):
    return e["op"] in ("Apply", "FilteredApply", "WithRowNums") and e["obs"]["len"] >= 1


def nt_c07(e):
    return e["op"] == "Eval" and e["obs"]["len"] >= 1 and e["a"]["expr"]["k"] == "call"


def nt_c17(e):
    return e["op"] in ("New", "Filter", "Sort", "Distinct") and "enum" in e["obs"].get("types", []) or e["obs"]["len"] == -1


def nt_c18(e):
    return e["op"] == "Filter" and e["a"]["clause"].get("cmp") in ("like", "ilike")


def nt_c12(e):
    return e["op"] == "ReadCSV" and len(e["a"]["doc"]) > 4


def nt_c13(e):
    return (e["op"] == "ReadCSV" and e["a"]["rt"] >= 0) or e["op"] == "ToCSV"


def nt_c14(e):
    return e["op"] in ("ToJSON", "ReadJSON") and len(e.get("bytes", e["a"].get("doc", []))) > 2


def nt_c16(e):
    return e.get("kind") == "finite"


def nt_c19(e):
    return e["op"] in ("ToSQL", "ReadSQL") and len(e.get("dcalls", [])) >= 2


def nt_c15(e):
    return e.get("fired") == 1


def nt_c11(e):
    return e.get("conc", 0) >= 2 and e.get("overlap", 0) >= 2


def nt_c01(e):
    return len(e.get("reobs", [])) >= 2


def nt_c09(e):
    return e["op"] in ("Equals", "ToCSV", "ToJSON", "String", "Rebuild", "SliceObs") or len(e.get("reobs", [])) >= 1


def nt_c10(e):
    return e["obs"]["len"] == -1 or e.get("gerr") == 1 or e.get("res") == -1


TV_NOTE = ("Trusted: TLC and the CommunityModules overrides; the harness encoder (self-tested) and its digests; reference renderings "
           "named in DESIGN.md section 9. The verdict of every event is TLC's evaluation of the specification on an execution of the real code; "
           "inputs beyond the generated/emitted ones are not covered.")

NOT_APPLICABLE = {}

PROPS = {
    "C11": dict(mc=[dict(name="Conc", module="Conc.tla", cfg="ConcMC.cfg", timeout=300),
                    dict(name="ConcPinLikeBuf", module="Conc.tla", cfg="ConcPinLikeBuf.cfg", expect_violation="NoRace"),
                    dict(name="ConcPinCtxMaps", module="Conc.tla", cfg="ConcPinCtxMaps.cfg", expect_violation="NoRace"),
                    dict(name="ConcPinPool", module="Conc.tla", cfg="ConcPinPool.cfg", expect_violation="NoRace"),
                    dict(name="ConcPinAppend", module="Conc.tla", cfg="ConcPinAppend.cfg", expect_violation="NoRace"),
                    dict(name="ConcPinNameMap", module="Conc.tla", cfg="ConcPinNameMap.cfg", expect_violation="NoRace"),
                    dict(name="ConcEmit", module="Conc.tla", cfg="ConcEmit.cfg", emit=True, id_base=1000000, tier_only="quick"),
                    dict(name="ConcEmitAll", module="Conc.tla", cfg="ConcEmitAll.cfg", emit=True, id_base=1000000, tier="thorough")],
                level="exploration", nontrivial=nt_c11, race=True,
                text="Batches of 2..8 operations (Filter incl. like/ilike, Sort, Distinct, GroupBy, Apply, Eval, Select/Slice/Copy, typed views, ToCSV/ToJSON/String, Equals) are started together on "
                     "separate goroutines released from a barrier, on the same frame and on frames sharing storage with it (parent/child, siblings through Slice, sorted copies, a shared enum table), "
                     "each batch repeated with seeded yields, with the harness built with -race. Every concurrent result is emitted as an ordinary event and judged by TLC against the operation's "
                     "semantics exactly as a sequential result is, every earlier family member is re-observed after each batch (Persist), and a report of Go's race detector during a batch is an event TLC "
                     "never accepts. Absence of data races is observed by the race detector on the interleavings the scheduler produced (a happens-before analysis of the executions driven, not all "
                     "interleavings): the level claimed is exploration. Conc.tla states the design argument (location classes shared between derived frames, read / write sets of 21 operation "
                     "kinds, NoRace for every pair x sharing relation; four pinned sharings must fail) and emits every (operation, operation, relation) triple, which the harness expands into a batch "
                     "of four goroutines on real frames.",
                note=TV_NOTE + " The data-race half rests on Go's race detector; overlap (>=2 goroutines inside an operation at once) is measured per batch and reported.",
                technique="TLC trace validation of results computed concurrently + Go race detector on model-chosen operation multisets and sharing shapes",
                rule="random operation multisets x sharing shapes x repetitions; non-trivial = an event of a batch in which >=2 goroutines were inside an operation simultaneously; distinct by (operation, arguments, result digest)"),
    "C19": dict(level="model_checking", nontrivial=nt_c19,
                mc=[dict(name="SqlColMC", module="SqlColMC.tla", cfg="SqlColMC.cfg", timeout=900),
                    dict(name="SqlColPinNoBackfill", module="SqlColMC.tla", cfg="SqlColPinNoBackfill.cfg", expect_violation="Refines"),
                    dict(name="SqlColPinShort", module="SqlColMC.tla", cfg="SqlColPinShort.cfg", expect_violation="Refines"),
                    dict(name="SqlColEmit", module="SqlColMC.tla", cfg="SqlColEmit.cfg", emit=True, id_base=1000000),
                    dict(name="SqlColDeep", module="SqlColMC.tla", cfg="SqlColDeep.cfg", tier="thorough", timeout=1800)],
                text="SqlColMC.tla models the scanner state of ReadSQL's columns (type inferred from the first non-NULL value, NULLs counted before and back-filled by the float and string paths, "
                     "four data slices of which the inferred one is handed to New), one action per Scan, for every history of up to 6 (8 thorough) values over NULL, int, float, bool, text and bytes, and checks that it "
                     "refines the property's reading of a column wherever that speaks; a missing or short back-fill must fail; every specified history of up to 4 values is read by the real ReadSQL next to a row-number column. "
                     "Frames with >=1 row however derived are written by the real ToSQL through database/sql into a recording, storing in-memory driver (harness/sqldrv.go) under every dialect "
                     "configuration (escape character incl. multi-byte, ? or $n placeholders, table names with spaces/quotes) and read back by the real ReadSQL; result sets with NULLs leading, in "
                     "the middle and trailing in text and float columns, byte-slice values, coercions, mixed-type and entirely-NULL columns are read directly. TLC requires: exactly one Exec per row in "
                     "frame order whose statement text equals InsertText (spec/Sql.tla) byte for byte and whose arguments are that row's cells (null strings as NULL); the frame read = ReadSqlSem of the "
                     "result set; the Prepare text = the configured query; a stored-and-read-back frame = the original with enum columns as strings.",
                note=TV_NOTE + " Float precision rounding and columns holding values of several SQL types are Unspecified. database/sql's own argument conversion is part of the path under test.",
                technique="TLA+ scanner-state model (SqlColMC.tla, TLC exhaustive, histories replayed) + specification (Sql.tla) + TLC trace validation against a recording in-memory database/sql driver",
                rule="random frames x dialects (round trip) and random result sets; non-trivial = a ToSQL/ReadSQL event with >=2 driver calls; distinct by (arguments, calls, result digest)"),
    "C15": dict(level="fault_enumeration", nontrivial=nt_c15,
                mc=[dict(name="CsvScanFault", module="CsvScan.tla", cfg="CsvScanFault.cfg", timeout=900),
                    dict(name="CsvScanPinD7", module="CsvScan.tla", cfg="CsvScanPinD7.cfg", expect_violation="FaultReported"),
                    dict(name="BufWrite", module="BufWrite.tla", cfg="BufWriteMC.cfg", timeout=900),
                    dict(name="BufWritePinD6", module="BufWrite.tla", cfg="BufWritePinD6.cfg", expect_violation="FaultReported")],
                text="Fault enumeration over ALL positions: for each document of a corpus (CSV incl. one crossing the 1 KiB scan buffer, JSON) ReadCSV / ReadJSON are executed once per byte offset at "
                     "which the io.Reader starts failing (error after, or together with, the last delivered bytes; several read fragmentations); for frames whose output stays below and exceeds 4096 and "
                     "8192 bytes ToCSV / ToJSON are executed once per number of bytes the io.Writer accepts before failing (quick: every 7th offset of the large outputs plus the buffer boundaries; "
                     "thorough: every offset); ToSQL / ReadSQL once per driver call number. All under recover. TLC decides per run (JudgeIO in spec/IOSem.tla): a panic is never accepted; if the fault fired the call "
                     "must report an error (Err / returned error); if it did not fire the result is judged in full against Csv.tla / JsonG.tla / Sql.tla, so an error-free result is never a shortened one.",
                note=TV_NOTE + " 'fired' is reported by the injecting reader/writer/driver of the harness.",
                technique="exhaustive fault-position enumeration on the real code, each run judged by TLC against the I/O specifications",
                rule="corpus x every fault position; non-trivial = a run in which the injected fault fired; distinct by (operation, input, fault position)"),
    "C16": dict(mc=[dict(name="ShortDefMC", module="ShortDefMC.tla", cfg="ShortDefMC.cfg", timeout=900),
                    dict(name="ShortDefPinLow", module="ShortDefMC.tla", cfg="ShortDefPinLow.cfg", expect_violation="AgreesWrongLow")],
                level="model_checking", nontrivial=nt_c16, trace_module="FloatTrace.tla", trace_cfg="FloatTrace.cfg",
                text="ShortDefMC.tla checks the definition used (ShortestDec.tla) against a brute-force definition - nearest representable value with ties to even, fewest digits, closest - on a toy float format, exhaustively. "
                     "Structured samples of binary64 (every biased exponent with mantissas 0, 1, 2, 2^52-1, 2^51, alternating bit patterns and random ones; both signs; every power of two and "
                     "ten with its two neighbours; integers around 2^53; halfway decimal cases; subnormal extremes; short decimals; random bit patterns) are formatted by the real "
                     "ryu.AppendFloat64f into destination buffers with varied content, spare capacity and stale bytes, and by ToJSON of a float column. For every output TLC decides, with "
                     "arbitrary-precision integer arithmetic written in TLA+ (BigNat.tla), the mathematical definition of spec/ShortestDec.tla: the text is in the positional grammar, lies inside "
                     "the rounding interval of the value, no decimal with fewer digits does, and no equally long neighbour inside the interval is closer; it must also equal the strconv reference and "
                     "leave the buffer prefix intact. The input space (2^64) is sampled, not exhausted - the definition itself is complete.",
                note=TV_NOTE + " strconv.FormatFloat is logged as the reference the property names; the ShortestDec verdict does not depend on it.",
                technique="TLA+ definition of shortest round-trip decimals over big naturals (ShortestDec.tla, BigNat.tla) evaluated by TLC on every produced text",
                rule="structured float sampling x buffer states; non-trivial = a finite non-zero float; distinct by (bit pattern, buffer state, output)"),
    "C09": dict(level="model_checking", nontrivial=nt_c09,
                mc=[dict(name="EqualsMC", module="EqualsMC.tla", cfg="EqualsDeep.cfg", timeout=900),
                    dict(name="EqualsEmit", module="EqualsMC.tla", cfg="EqualsEmit.cfg", emit=True, id_base=1000000, tier_only="quick"),
                    dict(name="EqualsEmitDeep", module="EqualsMC.tla", cfg="EqualsEmitDeep.cfg", emit=True, id_base=1000000, tier="thorough", timeout=1800)],
                text="Every member of random families of derived frames is observed through Len, typed views (ItemAt and, in a second pass, Slice()), ToCSV, ToJSON and String() on the real "
                     "library; TLC compares each with the specification's own copy of the frame: view cells = the column's cells; the CSV bytes are split by the specification's RFC 4180 "
                     "denotation (Csv.tla) and must give header + strconv texts; the JSON bytes are recognised and decoded by JsonG.tla and must give the keys in column order and the cells; "
                     "String() must equal StringSem (Str.tla) byte for byte (50-row and width truncation). Equals on pairs (both directions, self, rebuilt-with-New, results of the same "
                     "operation on original and rebuilt) must equal EqualsSem. EqualsMC.tla: EqualsSem is an equivalence decided by values over all 24 964 pairs of small frames, "
                     "and every pair (4 096 quick, all thorough) is executed: New, New, Equals both ways, with itself, Rebuild, Equals.",
                note=TV_NOTE + " strconv renderings of ints/floats/bools are logged references. No Go CSV/JSON parser is involved in the verdict.",
                technique="TLA+ specifications of the observers (Csv.tla, JsonG.tla, Str.tla, Frame.tla EqualsSem) + TLC trace validation",
                rule="random derived families; non-trivial = an observer/Equals/Rebuild event or an event re-observing earlier members; distinct by (operation, arguments, result digest)"),
    "C12": dict(level="model_checking", nontrivial=nt_c12,
                mc=[dict(name="CsvScan", module="CsvScan.tla", cfg="CsvScanMC.cfg", timeout=1500),
                    dict(name="CsvScanPinD8", module="CsvScan.tla", cfg="CsvScanPinD8.cfg", expect_violation="Faithful"),
                    dict(name="CsvScanPinD12", module="CsvScan.tla", cfg="CsvScanPinD12.cfg", expect_violation="Faithful"),
                    dict(name="CsvScanPinD18", module="CsvScan.tla", cfg="CsvScanPinD18.cfg", expect_violation="Faithful"),
                    dict(name="CsvScanEmit", module="CsvScan.tla", cfg="CsvScanEmit.cfg", emit=True, id_base=1000000),
                    dict(name="CsvScanDeep", module="CsvScan.tla", cfg="CsvScanDeep.cfg", tier="thorough", timeout=3000, heap="24g", extra=["-maxSetSize", "4000000"])],
                text="Random well-formed RFC 4180 documents (quoting optional, doubled quotes, delimiters/LF/CRLF inside quotes, LF or CRLF row ends, with/without final line break, several "
                     "delimiters, fields crossing the 1 KiB scan buffer and its doublings, empty lines, short rows) x configurations (EmptyNull, IgnoreEmptyLines, Headers, Types/EnumValues incl. "
                     "invalid ones, RenameDuplicateColumns, MissingColumnNameAlias, RowCountHint with >1000 rows) are read by the real ReadCSV under several read fragmentations each (whole, 1 byte, "
                     "random sizes, boundaries swept across offsets 1010..1040, EOF with/after data); TLC computes Denote(doc) and CsvFrameSem (spec/Csv.tla) and requires the observed frame to equal it "
                     "for every fragmentation.",
                note=TV_NOTE + " strconv.Atoi/ParseFloat/ParseBool verdicts per field text are logged references (the property's own wording). CRLF inside quotes may denote CR LF or LF.",
                technique="TLA+ specification of RFC 4180 + ReadCSV configuration semantics (Csv.tla) + TLC trace validation",
                rule="random documents x configurations x read schedules; non-trivial = a ReadCSV event on a document of >4 bytes; distinct by (document, configuration, schedule, result digest)"),
    "C13": dict(level="model_checking", nontrivial=nt_c13,
                mc=[dict(name="CsvWrite", module="CsvWrite.tla", cfg="CsvWriteMC.cfg", timeout=900),
                    dict(name="CsvWriteEmit", module="CsvWrite.tla", cfg="CsvWriteEmit.cfg", emit=True, id_base=1000000)],
                text="Frames however derived, with strings over arbitrary bytes except CR and floats over all exponent classes, subnormals, infinities, -0 and NaN, are written by the real ToCSV with every "
                     "writer option and read back by the real ReadCSV with the frame's types (and enum values) declared, both EmptyNull settings, under random read fragmentations. TLC checks two laws: "
                     "Denote(bytes written) = header + strconv texts of the cells (the writer against the grammar, no reader involved), and the frame read back = NullRule(original) with identical cells "
                     "(bit-identical floats, NaN kept).",
                note=TV_NOTE, technique="TLA+ specification (Csv.tla ToCsvOK, CsvFrameSem, NullRule) + TLC trace validation",
                rule="random frames x writer options x EmptyNull x read schedules; non-trivial = a ToCSV event or a read-back event; distinct by (arguments, result digest)"),
    "C14": dict(level="model_checking", nontrivial=nt_c14,
                mc=[dict(name="JsonEsc", module="JsonEsc.tla", cfg="JsonEscMC.cfg", timeout=900),
                    dict(name="JsonEscPinD9", module="JsonEsc.tla", cfg="JsonEscPinD9.cfg", expect_violation="RoundTrips"),
                    dict(name="JsonEscEmit", module="JsonEsc.tla", cfg="JsonEscEmit.cfg", emit=True, id_base=1000000),
                    dict(name="JsonEscDeep", module="JsonEsc.tla", cfg="JsonEscDeep.cfg", tier="thorough", timeout=3000, heap="20g")],
                text="Frames with strings and column names over arbitrary bytes (control characters, quotes, backslashes, U+2028/2029, multi-byte and malformed UTF-8) and finite or NaN floats over all "
                     "exponent classes are written by the real ToJSON; TLC recognises the bytes with the RFC 8259 automaton of spec/JsonG.tla (number and string grammar, UTF-8 validity), decodes them and "
                     "requires one object per row in row order, keys = column names in column order, values = cells (ints and floats as the strconv text, NaN/null as null, strings byte-equal after "
                     "decoding with invalid bytes as U+FFFD). The real ReadJSON of that output is compared with ReadJsonSem and with the round-trip law.",
                note=TV_NOTE + " Float texts are compared with strconv.FormatFloat(f,'f',-1,64), the reference C16 names; C16 additionally judges them with ShortestDec.tla.",
                technique="TLA+ byte-level JSON recogniser/decoder (JsonG.tla) + TLC trace validation",
                rule="random frames with adversarial strings/names; non-trivial = a ToJSON/ReadJSON event with >2 bytes; distinct by (bytes digest)"),
    "C17": dict(level="model_checking", nontrivial=nt_c17,
                mc=[dict(name="EnumMC", module="EnumMC.tla", cfg="EnumMC.cfg", timeout=900),
                    dict(name="EnumMCPinLimit", module="EnumMC.tla", cfg="EnumMCPinLimit.cfg", expect_violation="Decodes"),
                    dict(name="EnumMCPinConst", module="EnumMC.tla", cfg="EnumMCPinConst.cfg", expect_violation="TableOK"),
                    dict(name="EnumMCEmit", module="EnumMC.tla", cfg="EnumMCEmit.cfg", emit=True, id_base=1000000)],
                text="EnumMC.tla models the enum factory (value table, strict flag, 8-bit codes with the limit as the code of null) at a limit of 3 and checks that it decodes every cell and refines EnumCol; an off-by-one at the limit and a constant path without the strict check must fail; every small input is built on the real library through New, ReadJSON and ReadCSV. "
                     "Enum columns with declared tables of 1..255 values in random (non-alphabetical) order, 256 and 300 values (rejected), derived enums whose cardinality reaches 253..256 "
                     "and beyond, data over and outside the table, are built with New on the real library; every comparator against constants at ranks 0, 62..65, 126..129, 190..193, 253, 254 "
                     "and undeclared ones, in-lists, like, enum-enum column comparison, Sort (Reverse/NullLast), Distinct, GroupBy/Aggregate (whose key keeps table and strictness) are executed and "
                     "judged by TLC against EnumCol (Ops.tla), EnumLeaf / rank order (Clause.tla, Values.tla) and SortPost with MaxCard = 255; the same values in a string column answer alongside.",
                note=TV_NOTE, technique="TLA+ specification (Ops.tla EnumCol, Clause.tla EnumLeaf, Rel.tla) + TLC trace validation of harness executions",
                rule="enum frames at boundary cardinalities x operations; non-trivial = an event on a frame with an enum column, or a rejected construction; distinct by (operation, arguments, result digest)"),
    "C18": dict(level="model_checking", nontrivial=nt_c18,
                mc=[dict(name="LikeMC", module="LikeMC.tla", cfg="LikeMC.cfg", timeout=900),
                    dict(name="LikePinTrim", module="LikeMC.tla", cfg="LikePinTrim.cfg", expect_violation="Refines"),
                    dict(name="LikePinAnchor", module="LikeMC.tla", cfg="LikePinAnchor.cfg", expect_violation="Refines"),
                    dict(name="LikeEmit", module="LikeMC.tla", cfg="LikeEmit.cfg", emit=True, id_base=1000000),
                    dict(name="LikeDeep", module="LikeMC.tla", cfg="LikeDeep.cfg", tier="thorough", timeout=1800),
                    dict(name="UpperBufMC", module="UpperBuf.tla", cfg="UpperBufMC.cfg", timeout=900),
                    dict(name="UpperBufGrow", module="UpperBuf.tla", cfg="UpperBufGrow.cfg", timeout=900),
                    dict(name="UpperBufPinGrow", module="UpperBuf.tla", cfg="UpperBufPinGrow.cfg", expect_violation="NoOverrun"),
                    dict(name="UpperBufEmit", module="UpperBuf.tla", cfg="UpperBufEmit.cfg", emit=True, id_base=2000000),
                    dict(name="UpperBufEmitGrow", module="UpperBuf.tla", cfg="UpperBufEmitGrow.cfg", emit=True, id_base=3000000),
                    dict(name="UpperBufDeep", module="UpperBuf.tla", cfg="UpperBufDeep.cfg", tier="thorough", timeout=3000)],
                text="LikeMC.tla transcribes NewMatcher's selection (regular expression / contains / suffix / prefix / exact, upper-casing for ilike, one % trimmed at each end) and checks it against the property's wording "
                     "(a body occurring at a position constrained by the % at either end; '.' as the only metacharacter of a toy alphabet) for every pattern and cell of up to 3 (4 thorough) characters; greedy trimming and forgotten anchors must fail; "
                     "every pattern is run on the real library on a string and an enum column holding every cell of up to two characters and a null. "
                     "UpperBuf.tla models the buffer-reusing upper-casing (prefix copy at the first changed rune, direct store of ASCII results, one doubling when fewer than UTFMax bytes are left) over strings of rune classes "
                     "(byte width, width of the upper-case form, changed or not) and histories of three calls on one buffer: no write beyond the buffer, every rune written where the forms before it end; a doubling test without UTFMax must overrun; "
                     "every string of up to 3 rune classes (and of up to 6 expanding ones) is matched by the real ilike twice in one call with a buffer-growing cell in between. "
                     "like / ilike filters over valid UTF-8 cells (ASCII, multi-byte, code points whose upper case has another byte length such as U+0131, U+017F, U+0250, the C1 control U+0080, "
                     "cell lengths around the matcher's 10-byte buffer and its doublings, many cells per call) and patterns of every class (no %, leading, trailing, both, only %, empty, "
                     "regular-expression metacharacters, invalid regex), on a string column and on an enum column holding the same values, are executed on the real library; TLC decides the kept rows with "
                     "LikeTruth (spec/Clause.tla): matcher selection and literal prefix/suffix/infix/equality on byte sequences, upper-casing through a logged table of strings.ToUpper, "
                     "regular expressions through the logged verdicts of Go's regexp for every candidate anchoring, of which the specification selects the prescribed one.",
                note=TV_NOTE + " strings.ToUpper and regexp (standard library) are the references named by the property; only which text is matched against which regular expression is decided by the specification.",
                technique="TLA+ matcher-selection and upper-casing-buffer models (LikeMC.tla, UpperBuf.tla; TLC exhaustive, scenarios replayed) + specification (Clause.tla LikeTruth) + TLC trace validation of harness executions",
                rule="random UTF-8 cells x patterns derived from cells; non-trivial = a like/ilike filter event; distinct by (pattern, column, result digest)"),
    "C10": dict(level="model_checking", nontrivial=nt_c10,
                mc=[dict(name="ErrMonad", module="ErrMonad.tla", cfg="ErrMonadMC.cfg", timeout=900),
                    dict(name="ErrMonadEmit", module="ErrMonad.tla", cfg="ErrMonadEmit.cfg", emit=True, id_base=1000000),
                    dict(name="ErrMonadDeep", module="ErrMonad.tla", cfg="ErrMonadDeep.cfg", tier="thorough", timeout=1800)],
                text="The product (column of each type or unknown) x (16 comparators incl. unknown) x (every kind of value of the documented dynamic unions, valid or not) x "
                     "(plain / Not / inside Or / inside And) for Filter, predicates of every signature, a list of invalid requests for every other operation (Sort, Slice, Select, Copy, "
                     "Distinct, WithRowNums, empty And/Or, Apply, Eval, FilteredApply, GroupBy, Aggregate) and random chains are executed under recover, each followed by continuations "
                     "that hand in call-counting callbacks. TLC decides per event: a panic is never accepted; Err is set exactly when the specification's typing rules "
                     "(Clause.tla, Ops.tla, ApplyEval.tla, Rel.tla) say so; an errored frame has Len() = -1, stays errored through every continuation, reaches Grouper/Aggregate/QFrames, "
                     "makes ToCSV/ToJSON return an error, and no callback is invoked on it (CallsOK in Judge.tla).",
                note=TV_NOTE + " Error texts are not compared, only error / no error. Quick samples a quarter of the Filter product per seed; thorough enumerates it.",
                technique="TLA+ typing rules + error-monad state machine (QFTrace.tla) + TLC trace validation of harness executions under recover",
                rule="systematic product of operations x argument kinds plus random chains; non-trivial = an event whose result is an error; distinct by (operation, arguments, result digest)"),
    "C01": dict(level="model_checking", nontrivial=nt_c01,
                mc=[dict(name="Heap", module="Heap.tla", cfg="HeapMC.cfg", timeout=1500, heap="16g"),
                    dict(name="HeapPinSort", module="Heap.tla", cfg="HeapPinSortInPlace.cfg", expect_violation="Persistent"),
                    dict(name="HeapPinSetColumn", module="Heap.tla", cfg="HeapPinSetColumnInPlace.cfg", expect_violation="Persistent"),
                    dict(name="HeapPinFilter", module="Heap.tla", cfg="HeapPinFilterInPlace.cfg", expect_violation="Persistent"),
                    dict(name="HeapEmit", module="Heap.tla", cfg="HeapEmit.cfg", emit=True, id_base=1000000),
                    dict(name="HeapDeep", module="Heap.tla", cfg="HeapDeep.cfg", tier="thorough", timeout=3000, heap="24g")],
                text="Histories of 10..30 operations (Filter, Sort, Slice, Select, Drop, Copy, Apply, FilteredApply, Eval, WithRowNums, Distinct, GroupBy/Aggregate/QFrames, "
                     "typed views whose Slice() results are then overwritten, ToCSV/ToJSON/String/Equals), each applied to any member of the growing family, are executed on the real "
                     "library; after every step every earlier frame, grouper and view is re-observed completely through the public API and TLC requires its digest to equal the one "
                     "recorded at its birth (Persist in spec/QFTrace.tla), while the step's own result is judged against the operation's semantics.",
                note=TV_NOTE + " Equality of two observations is decided by comparing 30-bit FNV digests of their canonical serialisation (a collision could hide a change).",
                technique="TLA+ state machine over the family of frames (QFTrace.tla) + TLC trace validation with re-observation of all earlier members",
                rule="random histories over random frames (0..40 rows quick, ..200 thorough); non-trivial = an event that re-observes >=2 earlier members; distinct by (operation, arguments, result digest)"),
    "C06": dict(level="model_checking", nontrivial=nt_c06,
                mc=[dict(name="ColPos", module="ColPos.tla", cfg="ColPosMC.cfg", timeout=900),
                    dict(name="ColPosPinD16", module="ColPos.tla", cfg="ColPosPinD16.cfg", expect_violation="PosConsistent"),
                    dict(name="ColPosPinSelect", module="ColPos.tla", cfg="ColPosPinSelect.cfg", expect_violation="PosConsistent"),
                    dict(name="ColPosEmit", module="ColPos.tla", cfg="ColPosEmit.cfg", emit=True, id_base=1000000)],

                text="Every Apply / FilteredApply / WithRowNums call of the generated scenarios (programs of up to 8 instructions over every supported signature, "
                     "constants, column copies, built-in ToUpper, sources and destinations overlapping, on frames with arbitrary physical index; every FilteredApply "
                     "clause shape of C02) is executed on the real library and compared by TLC with ApplySem / FilteredApplySem / WithRowNumsSem (spec/ApplyEval.tla), "
                     "where functions are uninterpreted symbols given by tables, so that which function is applied to which cells in which order, the result "
                     "type, the column position and the untouched rest of the frame are all decided by the specification.",
                note=TV_NOTE + " FilteredApply with constant / column-copy / built-in instructions and ToUpper on enum columns are Unspecified (DESIGN.md 7, D15).",
                technique="TLA+ specification (ApplyEval.tla) + TLC trace validation of harness executions",
                rule="random frames (derived by sort/slice/filter/distinct) x random instruction lists; non-trivial = the result has >=1 row; distinct by (instructions, result digest)"),
    "C07": dict(level="model_checking", nontrivial=nt_c07,
                mc=[dict(name="EvalImpl", module="EvalImpl.tla", cfg="EvalImplMC.cfg", timeout=1500),
                    dict(name="EvalImplPinD5", module="EvalImpl.tla", cfg="EvalImplPinD5.cfg", expect_violation="Refines"),
                    dict(name="EvalImplPinD14", module="EvalImpl.tla", cfg="EvalImplPinD14.cfg", expect_violation="Refines"),
                    dict(name="EvalImplEmit", module="EvalImpl.tla", cfg="EvalImplEmit.cfg", emit=True, id_base=1000000)],
                text="Every Eval call of the generated scenarios (type-directed random expression trees of depth <=3 quick / <=6 thorough with unary, binary and n-ary calls, "
                     "constants on either side of non-commutative functions, user-registered functions, destinations equal to sources or to names shaped like the "
                     "evaluator's temporaries, frames that already own such names, malformed and ill-typed expressions) is executed on the real library and compared "
                     "by TLC with EvalSem (spec/ApplyEval.tla): left fold, operands in the order written, context lookup by name/arity/operand type, result = the "
                     "receiver plus/with-replaced dst and nothing else.",
                note=TV_NOTE, technique="TLA+ specification (ApplyEval.tla EvalSem) + TLC trace validation of harness executions",
                rule="random frames x random expression trees; non-trivial = a call expression evaluated on >=1 row; distinct by (expression, destination, result digest)"),
    "C04": dict(level="model_checking", nontrivial=nt_c04,
                mc=[dict(name="HashGroup", module="HashGroup.tla", cfg="HashGroupMC.cfg", timeout=1500, heap="16g"),
                    dict(name="HashGroupDeep", module="HashGroup.tla", cfg="HashGroupDeep.cfg", tier="thorough", timeout=3000, heap="20g"),
                    dict(name="HashGroupPinD4", module="HashGroup.tla", cfg="HashGroupPinD4.cfg", expect_violation="NoDuplicateKeys"),
                    dict(name="HashGroupEmit", module="HashGroup.tla", cfg="HashGroupEmit.cfg", emit=True, id_base=2000000, filter="groupby"),
                    dict(name="HashGroupSim", module="HashGroup.tla", cfg="HashGroupSim.cfg", emit=True, id_base=3000000, filter="groupby", sim=(25, 400), depth=20, workers=4)],

                text="Every GroupBy / Aggregate / QFrames call of the generated scenarios (key cardinality 1..3000 crossing each doubling of the hash table, all key "
                     "types and multi-column keys, both Null settings, -0.0/+0.0, NaN payloads, null vs empty string, built-in and user aggregations, As renaming, "
                     "error cases) is executed on the real library; TLC checks GroupPost (the observed groups partition the rows by key equality, rows in frame order) "
                     "and compares Aggregate / QFrames with AggregateSem / QFramesSem of spec/Rel.tla evaluated on the specification's own grouper.",
                note=TV_NOTE + " Built-in float aggregations over groups containing NaN, both zeros or both infinities are Unspecified (no reference fixes them).",
                technique="TLA+ specification (Rel.tla GroupPost/AggregateSem) + TLC trace validation of harness executions",
                rule="random frames with controlled key cardinality; non-trivial = GroupBy with >=2 groups or Aggregate with >=2 result rows; distinct by (arguments, result digest)"),
    "C05": dict(level="model_checking", nontrivial=nt_c05,
                mc=[dict(name="HashGroup", module="HashGroup.tla", cfg="HashGroupMC.cfg", timeout=1500, heap="16g"),
                    dict(name="HashGroupDeep", module="HashGroup.tla", cfg="HashGroupDeep.cfg", tier="thorough", timeout=3000, heap="20g"),
                    dict(name="HashGroupPinD4", module="HashGroup.tla", cfg="HashGroupPinD4.cfg", expect_violation="NoDuplicateKeys"),
                    dict(name="HashGroupEmit", module="HashGroup.tla", cfg="HashGroupEmit.cfg", emit=True, id_base=2000000, filter="distinct"),
                    dict(name="HashGroupSim", module="HashGroup.tla", cfg="HashGroupSim.cfg", emit=True, id_base=3000000, filter="distinct", sim=(25, 400), depth=20, workers=4)],

                text="Every Distinct call of the generated scenarios (key cardinality 1..3000, all key types, key column subsets including none, both Null settings, "
                     "-0.0/+0.0 and NaN payloads) is executed on the real library and TLC checks DistinctPost (spec/Rel.tla): the result rows are unmodified, "
                     "pairwise distinct input rows, pairwise different on the key, and their number equals the number of key classes.",
                note=TV_NOTE, technique="TLA+ specification (Rel.tla DistinctPost) + TLC trace validation of harness executions",
                rule="random frames with controlled key cardinality; non-trivial = the result has >=2 rows; distinct by (arguments, result digest)"),
    "C03": dict(level="model_checking", nontrivial=nt_c03, cover=True,
                mc=[dict(name="SortMC", module="SortMC.tla", cfg="SortMC.cfg", timeout=900),
                    dict(name="SortEmit", module="SortMC.tla", cfg="SortEmit.cfg", emit=True, id_base=1000000),
                    dict(name="SortDeep", module="SortMC.tla", cfg="SortDeep.cfg", tier="thorough", timeout=3000)], cover_files=["internal/sort/sorter.go"],
                text="Every Sort call of the generated scenarios (row counts across the sorter's regimes 0..14, 39..42, 97, 300, up to 5000; tie density from "
                     "all-equal to all-distinct; 1..3 keys with Reverse/NullLast over all column types; quicksort-killer inputs built at run time by McIlroy's "
                     "adversary against the repository's own internal/sort) is executed on the real library and TLC checks SortPost (spec/Rel.tla): the "
                     "result is a permutation of whole input rows and consecutive rows never decrease under the lexicographic key order.",
                note=TV_NOTE + " Statement coverage of internal/sort (go build -cover) is reported as coverage, it never decides.",
                technique="TLA+ specification (Rel.tla SortPost) + TLC trace validation of harness executions",
                rule="random frames x order lists, plus adversarial (antiquicksort) int columns; non-trivial = more than 12 rows (beyond insertion sort); "
                     "distinct by (orders, result digest)"),
    "C02": dict(level="model_checking", nontrivial=nt_c02,
                mc=[dict(name="FilterImpl", module="FilterImpl.tla", cfg="FilterImplMC.cfg", timeout=1500, heap="16g"),
                    dict(name="FilterImplPinD2", module="FilterImpl.tla", cfg="FilterImplPinD2.cfg", expect_violation="Refines"),
                    dict(name="FilterImplPinD3", module="FilterImpl.tla", cfg="FilterImplPinD3.cfg", expect_violation="Refines"),
                    dict(name="FilterImplEmit", module="FilterImpl.tla", cfg="FilterImplEmit.cfg", emit=True, id_base=1000000, tier_only="quick"),
                    dict(name="FilterImplDeep", module="FilterImpl.tla", cfg="FilterImplDeep.cfg", tier="thorough", timeout=3000, heap="24g"),
                    dict(name="FilterImplEmitDeep", module="FilterImpl.tla", cfg="FilterImplEmitDeep.cfg", emit=True, id_base=1000000, tier="thorough")],
                text="Every Filter call of the generated scenarios (random clause trees over all comparators x constant / list / column / none / predicate "
                     "arguments x five column types x Inverse, on frames with arbitrary physical index) is executed on the real library and the kept rows "
                     "are compared by TLC with FilterSem (spec/Clause.tla: row-wise ClauseTruth) evaluated on the specification's own copy of the receiver.",
                note=TV_NOTE, technique="TLA+ specification (Clause.tla) + TLC trace validation of harness executions",
                rule="random frames (0..300 rows, all column types, nulls, derived by sort/slice/filter/distinct) x random clause trees (depth <=3 quick, <=5 thorough); "
                     "non-trivial = the result keeps >=1 row and the clause has >=2 leaves; distinct by (clause, result digest)"),
    "C08": dict(level="model_checking", nontrivial=nt_c08,
                mc=[dict(name="ColPos", module="ColPos.tla", cfg="ColPosMC.cfg", timeout=900),
                    dict(name="ColPosPinD16", module="ColPos.tla", cfg="ColPosPinD16.cfg", expect_violation="PosConsistent"),
                    dict(name="ColPosPinSelect", module="ColPos.tla", cfg="ColPosPinSelect.cfg", expect_violation="PosConsistent"),
                    dict(name="ColPosEmit", module="ColPos.tla", cfg="ColPosEmit.cfg", emit=True, id_base=1000000)],
                text="Every New / Select / Drop / Slice / Copy call of the emitted and generated scenarios is executed on the real library and "
                     "its observed result is compared by TLC with NewSem / SelectSem / DropSem / SliceSem / CopySem of spec/Ops.tla applied to the "
                     "specification's own state; the length/order/enum configuration space of New is enumerated completely for <=3 columns of length 0..2.",
                note=TV_NOTE, technique="TLA+ specification (Ops.tla) + TLC trace validation of harness executions",
                rule="events are New calls (every assignment of lengths 0..2 to <=3 columns in every order, order/enum configuration errors, "
                     "illegal names, all data kinds, random maps) and Select/Drop/Slice/Copy requests (valid and invalid) on frames derived by "
                     "sort/slice/filter/distinct; non-trivial = New with >=1 column or a projection; distinct by (operation, arguments, result digest)"),
}


def match_known(known, scenario, bad, events):
    """A reproduced rejection is a known finding only if a listed matcher recognises the failing event."""
    for k in known:
        fn = MATCHERS.get(k.get("matcher"))
        if fn and fn(k, scenario, bad, events):
            return k
    return None


def _match_d21(k, scenario, bad, events):
    """D21: the rejected event is the Distinct / GroupBy of a witness scenario (enum ToUpper with case variants)"""
    if not str(scenario.get("note", "")).startswith("D21 witness"):
        return False
    steps = scenario.get("steps", [])
    if len(steps) != 3 or steps[1].get("op") != "Apply" or steps[2].get("op") != k.get("op"):
        return False
    return all(b[1] == 3 and b[2] == "result" for b in bad)


def _match_d15(k, scenario, bad, events):
    """D15: the rejected event is the FilteredApply of a witness scenario (constant / column copy under a filter)"""
    if not str(scenario.get("note", "")).startswith("D15 witness"):
        return False
    steps = scenario.get("steps", [])
    if len(steps) != 2 or steps[1].get("op") != "FilteredApply":
        return False
    return all(b[1] == 2 and b[2] == "result" for b in bad)


MATCHERS = {"d21": _match_d21, "d15": _match_d15}


def extract_scenarios(tlc_out, path, prop, mc):
    """Scenarios are printed by the MC specifications as PrintT(<<"SCN", ToJson(..)>>)."""
    n = 0
    base = mc.get("id_base", 1000000)
    with open(path, "w") as f:
        for line in tlc_out.splitlines():
            if line.startswith('<<"SCN"'):
                i = line.index('"{')
                j = line.rindex('}"')
                s = line[i + 1:j + 1].replace('\\"', '"').replace("\\\\", "\\")
                sc = json.loads(s)
                flt = mc.get("filter")
                if flt == "groupby" and sc["steps"][0].get("other") != 1:
                    continue
                if flt == "distinct" and sc["steps"][0].get("other") != 0:
                    continue
                # TLC's ToJson cannot write null: the models write a null string cell as the byte string <<0>>
                for st in sc.get("steps", []):
                    for d in st.get("data", []) or []:
                        if isinstance(d.get("strs"), list):
                            d["strs"] = [None if v == [0] else v for v in d["strs"]]
                n += 1
                sc["id"] = base + n
                sc["prop"] = prop
                f.write(json.dumps(sc) + "\n")
    return n


def _shrink(x, depth=0):
    if isinstance(x, list):
        if len(x) > 8 and depth > 0:
            return [_shrink(v, depth + 1) for v in x[:6]] + ["... %d more" % (len(x) - 6)]
        return [_shrink(v, depth + 1) for v in x]
    if isinstance(x, dict):
        return {k: _shrink(v, depth + 1) for k, v in x.items() if k not in ("reobs", "greobs")}
    return x


def coverage_stats(prop, events, cfg):
    nt = cfg.get("nontrivial", nt_always)
    seen = set()
    ops = {}
    samples = []
    total = 0
    for e in events:
        total += 1
        ops[e["op"]] = ops.get(e["op"], 0) + 1
        try:
            ok = nt(e)
        except Exception:
            ok = False
        if not ok:
            continue
        key = hashlib.sha1(json.dumps([e["op"], e.get("a"), e.get("dig"), e.get("gdig"), e.get("res"), e.get("bits"), e.get("prefix"), e.get("out") if e.get("bits") else None, e.get("scn") if e.get("fired") else None], sort_keys=True).encode()).hexdigest()
        if key in seen:
            continue
        seen.add(key)
        if len(samples) < 3 and len(json.dumps(e)) < 6000:
            samples.append(_shrink(e))
    if not samples:
        samples = [{"note": "no non-trivial event small enough to print"}]
    return dict(distinct_nontrivial=len(seen), samples=samples, events_total=total, events_by_operation=ops)
