package main

import "math"

func init() { generators["C01"] = genC01 }

// historyStep applies one random operation to a random member of the family.
func (g *Gen) historyStep() {
	nf := len(g.x.frames)
	f := g.rng.Intn(nf)
	if g.rng.Intn(2) == 0 && nf > 3 {
		f = nf - 1 - g.rng.Intn(3) // bias towards recent members (deeper derivations)
	}
	s := schemaOf(g.frame(f))
	if s.err || len(s.names) == 0 {
		g.do(Step{Op: "Slice", Recv: f, A: 0, B: 0})
		return
	}
	types4 := []string{"int", "float", "bool", "string"}
	switch g.rng.Intn(21) {
	case 0, 1:
		cl := g.randomClause(s, 2)
		if g.rng.Intn(3) == 0 {
			// a sub clause that keeps every row (or the Null clause) next to one that drops rows: the
			// intermediate result is then the receiver itself, not a private copy
			leaf := g.simpleLeaf(s)
			keep := Clause{K: "null"}
			if ic := s.colsOfType("int"); len(ic) > 0 && g.rng.Intn(2) == 0 {
				keep = Clause{K: "leaf", Col: toBS(ic[0]), CmpK: "str", Cmp: ">=", Arg: &Val{T: "int", I: math.MinInt64}}
			}
			switch g.rng.Intn(4) {
			case 0:
				cl = Clause{K: "and", Subs: []Clause{keep, leaf}}
			case 1:
				cl = Clause{K: "and", Subs: []Clause{keep, keep, leaf, g.simpleLeaf(s)}}
			case 2:
				cl = Clause{K: "or", Subs: []Clause{{K: "not", Subs: []Clause{keep}}, leaf}}
			default:
				cl = Clause{K: "and", Subs: []Clause{{K: "or", Subs: []Clause{keep}}, leaf}}
			}
		}
		g.do(Step{Op: "Filter", Recv: f, Clause: &cl})
	case 2, 3:
		g.do(Step{Op: "Sort", Recv: f, Orders: g.sortOrders(s, 2)})
	case 4:
		a := g.rng.Intn(s.n + 1)
		g.do(Step{Op: "Slice", Recv: f, A: a, B: a + g.rng.Intn(s.n-a+1)})
	case 19:
		cols := g.perm(s.names)
		if g.rng.Intn(3) == 0 && len(cols) > 1 {
			cols[len(cols)-1] = "nosuch" // detected after part of the work was done
		}
		g.do(Step{Op: "ToCSV", Recv: f, Csv: &CsvConf{WriteCols: bsList(cols), NoHeaderWrite: g.rng.Intn(3) == 0}})
		g.do(Step{Op: "ToJSON", Recv: f})
	case 5:
		if g.rng.Intn(3) == 0 {
			g.do(Step{Op: "Select", Recv: f, Cols: bsList(g.perm(s.names))}) // every column, another order
		} else {
			g.do(Step{Op: "Select", Recv: f, Cols: bsList(g.subset(s.names, 4))})
		}
	case 6:
		cols := g.subset(s.names, 2)
		if g.rng.Intn(3) == 0 { // unknown names are ignored by Drop - however many there are
			cols = append(cols, g.subset([]string{"nosuch", "X9", "Y9", "Z9", "W9"}, 5)...)
		}
		g.do(Step{Op: "Drop", Recv: f, Cols: bsList(cols)})
	case 7:
		if g.rng.Intn(4) == 0 {
			g.do(Step{Op: "Rolling", Recv: f, Dst: toBS(g.oneOf(append([]string{"R1"}, s.names...))), Src: toBS(g.oneOf(s.names)), A: g.rng.Intn(4), Fl: g.oneOf([]string{"", "start", "end", "center"})})
			return
		}
		g.do(Step{Op: "Copy", Recv: f, Dst: toBS(g.oneOf(append([]string{"K1", "K2"}, s.names...))), Src: toBS(g.oneOf(s.names))})
	case 8, 9:
		g.do(Step{Op: "Apply", Recv: f, Instrs: g.randomInstrs(s, 3, false)})
	case 10:
		cl := g.randomClause(s, 1)
		if g.rng.Intn(3) == 0 { // nothing filtered away: the filtered frame is the receiver itself
			cl = []Clause{{K: "null"}, {K: "and", Subs: []Clause{{K: "null"}}}, {K: "or", Subs: []Clause{{K: "null"}}}}[g.rng.Intn(3)]
		}
		g.do(Step{Op: "FilteredApply", Recv: f, Clause: &cl, Instrs: g.randomInstrs(s, 2, true)})
	case 11:
		e := g.genExpr(s, types4[g.rng.Intn(4)], 2)
		g.do(Step{Op: "Eval", Recv: f, Dst: toBS(g.oneOf(append([]string{"V1", "V2"}, s.names...))), Expr: &e, Ctx: userCtx})
	case 12:
		g.do(Step{Op: "WithRowNums", Recv: f, Dst: toBS(g.oneOf([]string{"rn", "rn2", g.oneOf(s.names)}))})
	case 13:
		g.do(Step{Op: "Distinct", Recv: f, Cols: bsList(g.subset(s.names, 2)), Null: g.rng.Intn(2) == 0})
	case 14, 15:
		gcols := g.subset(s.names, 2)
		if g.rng.Intn(4) == 0 {
			gcols = nil // one group of all rows: the grouper holds the frame's own index
		}
		g.do(Step{Op: "GroupBy", Recv: f, Cols: bsList(gcols), Null: g.rng.Intn(2) == 0})
		gid := len(g.x.groupers) - 1
		if g.rng.Intn(2) == 0 {
			aggs := g.randomAggs(s, nil)
			if g.rng.Intn(2) == 0 {
				aggs = g.builtinAggs(s)
			}
			g.do(Step{Op: "Aggregate", Recv: gid, Aggs: aggs})
		} else if s.n <= 40 {
			g.do(Step{Op: "QFrames", Recv: gid})
		}
	case 16:
		if ng := len(g.x.groupers); ng > 0 {
			g.do(Step{Op: "Aggregate", Recv: g.rng.Intn(ng), Aggs: g.randomAggs(s, nil)})
		} else {
			g.do(Step{Op: "String", Recv: f})
		}
	case 17:
		g.do(Step{Op: "View", Recv: f, Dst: toBS(g.oneOf(s.names))})
		g.do(Step{Op: "Scribble", Recv: f})
	case 18:
		g.do(Step{Op: []string{"ToCSV", "ToJSON", "String"}[g.rng.Intn(3)], Recv: f})
	default:
		g.do(Step{Op: "Equals", Recv: f, Other: g.rng.Intn(nf)})
	}
}

// builtinAggs: only built-in aggregations (valid for the column's type)
func (g *Gen) builtinAggs(s schema) []Agg {
	aggs := []Agg{}
	used := map[string]bool{}
	for k := 1 + g.rng.Intn(2); k > 0; k-- {
		c := g.oneOf(s.names)
		if used[c] {
			continue
		}
		used[c] = true
		var fn string
		switch s.typeOf(c) {
		case "int":
			fn = g.oneOf([]string{"sum", "min", "max", "count"})
		case "float":
			fn = g.oneOf([]string{"max", "min", "count"})
		case "bool":
			fn = g.oneOf([]string{"majority", "count"})
		default:
			fn = "count"
		}
		aggs = append(aggs, Agg{Fn: FnRef{K: "builtin", Sym: fn}, Col: toBS(c), As: toBS("agg_" + c)})
	}
	return aggs
}

// nullClauseFamilies: FilteredApply / Filter whose clause filters nothing away (Null, And(Null), a leaf that keeps
// every row): what they hand back or release is the receiver's own index - followed by filters on this and on
// other frames with results of every size; the receivers are re-observed after every step
func (g *Gen) nullClauseFamilies() {
	for rep := 0; rep < g.pick(24, 240); rep++ {
		n := 2 + g.rng.Intn(7)
		g.begin("null clause then filters")
		f := g.do(g.stdNew(n, "ABS", 6))
		o := g.do(g.stdNew(3+g.rng.Intn(8), "BA", 6))
		if g.frame(f).Err != nil || g.frame(o).Err != nil {
			g.end()
			continue
		}
		cls := []Clause{{K: "null"}, {K: "and", Subs: []Clause{{K: "null"}}}, {K: "or", Subs: []Clause{{K: "null"}}},
			{K: "leaf", Col: toBS("A"), CmpK: "str", Cmp: ">=", Arg: &Val{T: "int", I: math.MinInt64}}}
		for k := 0; k < 3; k++ {
			cl := cls[g.rng.Intn(len(cls))]
			if g.rng.Intn(2) == 0 {
				g.do(Step{Op: "FilteredApply", Recv: f, Clause: &cl, Instrs: []Instr{{Fn: FnRef{K: "fn1", Sym: "negI"}, Dst: toBS(g.oneOf([]string{"A", "N"})), Src1: toBS("A")}}})
			} else {
				g.do(Step{Op: "Filter", Recv: f, Clause: &cl})
			}
			for j := 0; j < 3; j++ {
				t := g.oneOf2(f, o)
				lf := Clause{K: "leaf", Col: toBS("A"), CmpK: "str", Cmp: g.oneOf([]string{"<", ">", "!=", "="}), Arg: &Val{T: "int", I: intPool[g.rng.Intn(8)]}}
				g.do(Step{Op: "Filter", Recv: t, Clause: &lf})
			}
		}
		g.end()
	}
}

// enumFunctionFamilies: string functions - built-in names of the evaluation context, exported functions of package
// function, user functions - applied to ENUM columns, whose cells are handed to the function out of the
// column's shared value table: the table, the receiver and every frame sharing the column stay as they were
func (g *Gen) enumFunctionFamilies() {
	for rep := 0; rep < g.pick(12, 120); rep++ {
		n := 3 + g.rng.Intn(5)
		vals := make([]*BS, n)
		for i := range vals {
			if g.rng.Intn(7) != 0 {
				vals[i] = bsp(g.oneOf([]string{"ab", "Ab", "AB", "b", "B", "éa", ""}))
			}
		}
		g.begin("functions on enum columns")
		f := g.do(Step{Op: "New", Recv: -1, HasOrder: true, ColOrder: bsList([]string{"E", "X"}), HasEnums: true,
			Enums: []EnumDecl{{Name: toBS("E"), Vals: bsList([]string{"b", "B", "ab", "Ab", "AB", "éa", ""})}, {Name: toBS("X"), Vals: nil}},
			Data:  []ColData{{Name: toBS("E"), Kind: "string", Strs: vals}, {Name: toBS("X"), Kind: "string", Strs: vals}}})
		sib := g.do(Step{Op: "Slice", Recv: f, A: 1, B: n})
		for _, col := range []string{"E", "X"} {
			for _, op := range []string{"upper", "lower", "str", "bang"} {
				e := Expr{K: "call", Op: op, Args: []Expr{{K: "col", Name: toBS(col)}}}
				g.do(Step{Op: "Eval", Recv: g.oneOf2(f, sib), Dst: toBS(g.oneOf([]string{"V", col})), Expr: &e, Ctx: userCtx})
			}
			for _, sym := range []string{"UpperS", "LowerS", "StrS", "nilIfEmptyS"} {
				g.do(Step{Op: "Apply", Recv: g.oneOf2(f, sib), Instrs: []Instr{{Fn: FnRef{K: "fn1", Sym: sym}, Dst: toBS(g.oneOf([]string{"W", col})), Src1: toBS(col)}}})
			}
			g.do(Step{Op: "Apply", Recv: f, Instrs: []Instr{{Fn: FnRef{K: "fn2", Sym: "ConcatS"}, Dst: toBS("C"), Src1: toBS(col), Src2: toBS(col)}}})
		}
		g.do(Step{Op: "Equals", Recv: f, Other: g.do(Step{Op: "Rebuild", Recv: f})})
		g.end()
	}
}

func genC01(g *Gen) {
	g.enumFunctionFamilies()
	g.nullClauseFamilies()
	for rep := 0; rep < g.pick(30, 300); rep++ {
		g.begin("sibling column additions")
		g.siblingAdds(g.do(g.stdNew([]int{1, 3, 6}[g.rng.Intn(3)], g.oneOf([]string{"AB", "ABF", "SAT", "EXAF"}), 8)))
		g.end()
	}
	colsets := []string{"ABF", "AFTSE", "SREX", "ABCFGTUSRED", "FS", "ATE"}
	sizes := []int{0, 1, 2, 3, 5, 8, 13, 21, 40}
	if g.thorough() {
		sizes = append(sizes, 80, 200)
	}
	for rep := 0; rep < g.pick(150, 2000); rep++ {
		n := sizes[g.rng.Intn(len(sizes))]
		g.begin("history")
		g.do(g.stdNew(n, colsets[g.rng.Intn(len(colsets))], 10))
		steps := 10 + g.rng.Intn(g.pick(8, 21))
		for k := 0; k < steps; k++ {
			g.historyStep()
		}
		g.end()
	}
}
