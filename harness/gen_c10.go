package main

func init() { generators["C10"] = genC10 }

// every kind of value the dynamic union types admit (or not)
func (g *Gen) allVals(s schema) []*Val {
	vs := []*Val{
		nil,
		{T: "int", I: 1}, {T: "float", F: "1.5"}, {T: "float", F: "NaN"}, {T: "bool", B: true}, {T: "string", S: toBS("a")},
		{T: "pstring", S: toBS("a")}, {T: "nilpstring"}, {T: "nil"}, {T: "struct"}, {T: "int32", I: 1},
		{T: "ints", L: []Val{{T: "int", I: 1}, {T: "int", I: 2}}}, {T: "floats", L: []Val{{T: "float", F: "1"}}},
		{T: "strs", L: []Val{{T: "string", S: toBS("a")}, {T: "string", S: toBS("b")}}}, {T: "bools", L: []Val{{T: "bool", B: true}}},
		{T: "ifaces", L: []Val{{T: "int", I: 1}, {T: "string", S: toBS("a")}}}, {T: "ifaces", L: []Val{}},
		{T: "ifaces", L: []Val{{T: "float", F: "2"}, {T: "int", I: 1}}}, {T: "ifaces", L: []Val{{T: "string", S: toBS("a")}}},
		{T: "col", S: toBS("nosuch")},
	}
	for _, n := range s.names {
		vs = append(vs, &Val{T: "col", S: toBS(n)})
	}
	return vs
}

var allCmps = []string{"<", "<=", ">", ">=", "=", "!=", "in", "not in", "isnull", "isnotnull", "like", "ilike", "any_bits", "all_bits", "bogus", ""}

// continuation: operations chained after a (possibly failed) step; all hand in counted callbacks
func (g *Gen) continuation(f int) {
	for k := 0; k < 2; k++ {
		switch g.rng.Intn(12) {
		case 0:
			g.do(Step{Op: "Apply", Recv: f, Instrs: []Instr{{Fn: FnRef{K: "fn1", Sym: "negI"}, Dst: toBS("Z"), Src1: toBS("A")}, {Fn: FnRef{K: "fn0", Sym: "sevenI"}, Dst: toBS("Y")}}})
		case 1:
			cl := Clause{K: "leaf", Col: toBS("A"), CmpK: "fn1", Cmp: "oddI"}
			g.do(Step{Op: "Filter", Recv: f, Clause: &cl})
		case 2:
			g.do(Step{Op: "Sort", Recv: f, Orders: []Order{{Col: toBS("A")}}})
		case 3:
			e := Expr{K: "call", Op: "neg", Args: []Expr{{K: "col", Name: toBS("A")}}}
			g.do(Step{Op: "Eval", Recv: f, Dst: toBS("Z"), Expr: &e, Ctx: userCtx})
		case 4:
			g.do(Step{Op: "GroupBy", Recv: f, Cols: bsList([]string{"A"})})
			g.do(Step{Op: "Aggregate", Recv: len(g.x.groupers) - 1, Aggs: []Agg{{Fn: FnRef{K: "agg", Sym: "firstAggI"}, Col: toBS("B")}}})
			if g.rng.Intn(2) == 0 {
				g.do(Step{Op: "QFrames", Recv: len(g.x.groupers) - 1})
			}
		case 5:
			g.do(Step{Op: []string{"ToCSV", "ToJSON", "String"}[g.rng.Intn(3)], Recv: f})
		case 6:
			g.do(Step{Op: "Distinct", Recv: f})
		case 7:
			g.do(Step{Op: "Select", Recv: f, Cols: bsList([]string{"A"})})
		case 8:
			g.do(Step{Op: "Slice", Recv: f, A: 0, B: 1})
		case 9:
			cl := Clause{K: "leaf", Col: toBS("A"), CmpK: "fn1", Cmp: "oddI"}
			g.do(Step{Op: "FilteredApply", Recv: f, Clause: &cl, Instrs: []Instr{{Fn: FnRef{K: "fn1", Sym: "incI"}, Dst: toBS("Z"), Src1: toBS("A")}}})
		case 10:
			g.do(Step{Op: "WithRowNums", Recv: f, Dst: toBS("rn")})
		default:
			g.do(Step{Op: "Copy", Recv: f, Dst: toBS("Z"), Src: toBS("A")})
		}
		f = len(g.x.frames) - 1
	}
}

func genC10(g *Gen) {
	base := func() int { return g.do(g.stdNew(4, "ABFTSEX", 8)) }
	// 1. Filter: column type x comparator x argument kind (sampled per seed; exhaustive in thorough)
	g.begin("probe")
	probe := base()
	s := schemaOf(g.frame(probe))
	g.end()
	vals := g.allVals(s)
	for _, col := range append(append([]string{}, s.names...), "nosuch") {
		for _, cmp := range allCmps {
			for vi, v := range vals {
				if !g.thorough() && g.rng.Intn(2) != 0 {
					continue
				}
				_ = vi
				g.begin("filter product")
				f := base()
				cl := Clause{K: "leaf", Col: toBS(col), CmpK: "str", Cmp: cmp, Arg: v, Inv: g.rng.Intn(3) == 0}
				tt := Clause{K: "leaf", Col: toBS("A"), CmpK: "str", Cmp: ">", Arg: &Val{T: "int", I: -100000}}
				ff := Clause{K: "leaf", Col: toBS("A"), CmpK: "str", Cmp: ">", Arg: &Val{T: "int", I: 100000}}
				switch g.rng.Intn(14) {
				case 5: // composite neighbours selecting every row / no row, before and after the clause under test
					cl = Clause{K: "or", Subs: []Clause{{K: "and", Subs: []Clause{tt}}, cl}}
				case 6:
					cl = Clause{K: "or", Subs: []Clause{cl, {K: "not", Subs: []Clause{ff}}}}
				case 7:
					cl = Clause{K: "and", Subs: []Clause{{K: "or", Subs: []Clause{ff}}, cl}}
				case 8:
					cl = Clause{K: "and", Subs: []Clause{cl, {K: "not", Subs: []Clause{tt}}}}
				case 9:
					cl = Clause{K: "or", Subs: []Clause{{K: "not", Subs: []Clause{ff}}, {K: "and", Subs: []Clause{tt, cl}}}}
				case 10:
					cl = Clause{K: "or", Subs: []Clause{tt, {K: "not", Subs: []Clause{cl}}, ff}}
				case 11: // plain neighbours that already select every row: the later ones are still validated
					cl = Clause{K: "or", Subs: []Clause{tt, cl}}
				case 12:
					cl = Clause{K: "or", Subs: []Clause{ff, tt, cl, ff}}
				case 0:
					cl = Clause{K: "not", Subs: []Clause{cl}}
				case 1:
					cl = Clause{K: "or", Subs: []Clause{{K: "leaf", Col: toBS("A"), CmpK: "str", Cmp: ">", Arg: &Val{T: "int", I: 0}}, cl}}
				case 2:
					cl = Clause{K: "and", Subs: []Clause{{K: "leaf", Col: toBS("A"), CmpK: "str", Cmp: ">", Arg: &Val{T: "int", I: 100}}, cl}}
				}
				g.do(Step{Op: "Filter", Recv: f, Clause: &cl})
				g.continuation(len(g.x.frames) - 1)
				if g.rng.Intn(3) == 0 {
					g.validAfterInvalid(f, s)
				}
				g.end()
			}
		}
	}
	// predicates of every signature on every column type
	preds := []string{"oddI", "isNegF", "NotB", "isNilS", "ltII", "ltFF", "implBB", "prefixSS", "negI", "PlusI", "sevenI", "firstAggI"}
	for _, col := range s.names {
		for _, p := range preds {
			for _, arg := range []*Val{nil, {T: "col", S: toBS(col)}, {T: "col", S: toBS("A")}, {T: "int", I: 1}} {
				g.begin("filter predicate")
				f := base()
				k := "fn1"
				if fnReg[p].Arity == 2 {
					k = "fn2"
				}
				cl := Clause{K: "leaf", Col: toBS(col), CmpK: k, Cmp: p, Arg: arg}
				g.do(Step{Op: "Filter", Recv: f, Clause: &cl})
				g.continuation(len(g.x.frames) - 1)
				g.end()
			}
		}
	}
	// 2. other operations with invalid arguments
	type mk func(f int) Step
	bads := []mk{
		func(f int) Step { return Step{Op: "Sort", Recv: f, Orders: []Order{{Col: toBS("nosuch")}}} },
		func(f int) Step { return Step{Op: "Sort", Recv: f, Orders: []Order{{Col: toBS("A")}, {Col: toBS("")}}} },
		func(f int) Step { return Step{Op: "Slice", Recv: f, A: -1, B: 2} },
		func(f int) Step { return Step{Op: "Slice", Recv: f, A: 3, B: 2} },
		func(f int) Step { return Step{Op: "Slice", Recv: f, A: 0, B: 5} },
		func(f int) Step { return Step{Op: "Slice", Recv: f, A: 5, B: 5} },
		func(f int) Step { return Step{Op: "Select", Recv: f, Cols: bsList([]string{"A", "nosuch"})} },
		func(f int) Step { return Step{Op: "Copy", Recv: f, Dst: toBS("Z"), Src: toBS("nosuch")} },
		func(f int) Step { return Step{Op: "Copy", Recv: f, Dst: toBS("$z"), Src: toBS("A")} },
		func(f int) Step { return Step{Op: "Copy", Recv: f, Dst: toBS(""), Src: toBS("A")} },
		func(f int) Step { return Step{Op: "Copy", Recv: f, Dst: toBS("'z'"), Src: toBS("A")} },
		func(f int) Step { return Step{Op: "Distinct", Recv: f, Cols: bsList([]string{"nosuch"})} },
		func(f int) Step { return Step{Op: "TypedView", Recv: f, Dst: toBS("A"), Fl: "float"} },
		func(f int) Step { return Step{Op: "TypedView", Recv: f, Dst: toBS("nosuch"), Fl: "int"} },
		func(f int) Step { return Step{Op: "TypedView", Recv: f, Dst: toBS("E"), Fl: "string"} },
		func(f int) Step { return Step{Op: "TypedView", Recv: f, Dst: toBS("S"), Fl: "enum"} },
		func(f int) Step { return Step{Op: "TypedView", Recv: f, Dst: toBS("A"), Fl: "int"} },
		func(f int) Step { return Step{Op: "Rolling", Recv: f, Dst: toBS("Z"), Src: toBS("A"), A: -1} },
		func(f int) Step { return Step{Op: "Rolling", Recv: f, Dst: toBS("Z"), Src: toBS("A"), Fl: "middle"} },
		func(f int) Step { return Step{Op: "Rolling", Recv: f, Dst: toBS("Z"), Src: toBS("A"), A: 3, B: 1} },
		func(f int) Step { return Step{Op: "Rolling", Recv: f, Dst: toBS("Z"), Src: toBS("nosuch")} },
		func(f int) Step { return Step{Op: "Rolling", Recv: f, Dst: toBS("$z"), Src: toBS("A"), A: 2} },
		func(f int) Step { return Step{Op: "WithRowNums", Recv: f, Dst: toBS("")} },
		func(f int) Step { return Step{Op: "Filter", Recv: f, Clause: &Clause{K: "or", Subs: []Clause{{K: "or"}}}} },
		func(f int) Step {
			return Step{Op: "Filter", Recv: f, Clause: &Clause{K: "or", Subs: []Clause{{K: "or"}, {K: "leaf", Col: toBS("A"), CmpK: "str", Cmp: ">", Arg: &Val{T: "int", I: 0}}}}}
		},
		func(f int) Step {
			return Step{Op: "Filter", Recv: f, Clause: &Clause{K: "or", Subs: []Clause{{K: "leaf", Col: toBS("A"), CmpK: "str", Cmp: ">", Arg: &Val{T: "int", I: 0}}, {K: "or"}}}}
		},
		func(f int) Step {
			return Step{Op: "Filter", Recv: f, Clause: &Clause{K: "not", Subs: []Clause{{K: "or", Subs: []Clause{{K: "or"}, {K: "leaf", Col: toBS("A"), CmpK: "str", Cmp: ">", Arg: &Val{T: "int", I: 0}}}}}}}
		},
		func(f int) Step {
			return Step{Op: "Filter", Recv: f, Clause: &Clause{K: "and", Subs: []Clause{{K: "leaf", Col: toBS("A"), CmpK: "str", Cmp: ">", Arg: &Val{T: "int", I: 0}}, {K: "or", Subs: []Clause{{K: "or"}}}}}}
		},
		func(f int) Step {
			return Step{Op: "Filter", Recv: f, Clause: &Clause{K: "and", Subs: []Clause{{K: "and"}, {K: "leaf", Col: toBS("A"), CmpK: "str", Cmp: ">", Arg: &Val{T: "int", I: 0}}}}}
		},
		func(f int) Step { return Step{Op: "Filter", Recv: f, Clause: &Clause{K: "and"}} },
		func(f int) Step { return Step{Op: "Filter", Recv: f, Clause: &Clause{K: "or"}} },
		func(f int) Step { return Step{Op: "Filter", Recv: f, Clause: &Clause{K: "not", Subs: []Clause{{K: "and"}}}} },
		func(f int) Step {
			return Step{Op: "Filter", Recv: f, Clause: &Clause{K: "or", Subs: []Clause{{K: "null"}, {K: "and", Subs: []Clause{{K: "or"}}}}}}
		},
		func(f int) Step { return Step{Op: "Apply", Recv: f, Instrs: []Instr{{Fn: FnRef{K: "bad"}, Dst: toBS("Z")}}} },
		func(f int) Step { return Step{Op: "Apply", Recv: f, Instrs: []Instr{{Fn: FnRef{K: "fn1", Sym: "negI"}, Dst: toBS("Z")}}} },
		func(f int) Step { return Step{Op: "Apply", Recv: f, Instrs: []Instr{{Fn: FnRef{K: "fn1", Sym: "negI"}, Dst: toBS("Z"), Src1: toBS("F")}}} },
		func(f int) Step { return Step{Op: "Apply", Recv: f, Instrs: []Instr{{Fn: FnRef{K: "fn2", Sym: "PlusI"}, Dst: toBS("Z"), Src1: toBS("A"), Src2: toBS("F")}}} },
		func(f int) Step { return Step{Op: "Apply", Recv: f, Instrs: []Instr{{Fn: FnRef{K: "fn2", Sym: "ltII"}, Dst: toBS("Z"), Src1: toBS("A"), Src2: toBS("B")}}} },
		func(f int) Step { return Step{Op: "Apply", Recv: f, Instrs: []Instr{{Fn: FnRef{K: "fn0", Sym: "sevenI"}, Dst: toBS("Z"), Src1: toBS("A")}}} },
		func(f int) Step { return Step{Op: "Apply", Recv: f, Instrs: []Instr{{Fn: FnRef{K: "builtin", Sym: "ToUpper"}, Dst: toBS("Z"), Src1: toBS("A")}}} },
		func(f int) Step { return Step{Op: "Apply", Recv: f, Instrs: []Instr{{Fn: FnRef{K: "builtin", Sym: "nosuch"}, Dst: toBS("Z"), Src1: toBS("S")}}} },
		func(f int) Step { return Step{Op: "Apply", Recv: f, Instrs: []Instr{{Fn: FnRef{K: "const", V: &Val{T: "struct"}}, Dst: toBS("Z")}}} },
		func(f int) Step { return Step{Op: "Apply", Recv: f, Instrs: []Instr{{Fn: FnRef{K: "col", V: &Val{T: "col", S: toBS("nosuch")}}, Dst: toBS("Z")}}} },
		func(f int) Step { return Step{Op: "Apply", Recv: f, Instrs: []Instr{{Fn: FnRef{K: "fn1", Sym: "negI"}, Dst: toBS("$z"), Src1: toBS("A")}}} },
		func(f int) Step { return Step{Op: "Apply", Recv: f, Instrs: []Instr{{Fn: FnRef{K: "agg", Sym: "firstAggI"}, Dst: toBS("Z"), Src1: toBS("A")}}} },
		func(f int) Step { return Step{Op: "Eval", Recv: f, Dst: toBS("Z"), Expr: &Expr{K: "call", Op: "+"}} },
		func(f int) Step { return Step{Op: "Eval", Recv: f, Dst: toBS("Z"), Expr: &Expr{K: "bad"}} },
		func(f int) Step {
			return Step{Op: "Eval", Recv: f, Dst: toBS("$z"), Expr: &Expr{K: "call", Op: "+", Args: []Expr{{K: "col", Name: toBS("A")}, {K: "const", V: &Val{T: "int", I: 1}}}}}
		},
		func(f int) Step {
			return Step{Op: "Eval", Recv: f, Dst: toBS(""), Expr: &Expr{K: "call", Op: "abs", Args: []Expr{{K: "col", Name: toBS("A")}}}}
		},
		func(f int) Step {
			return Step{Op: "Eval", Recv: f, Dst: toBS("'q'"), Expr: &Expr{K: "call", Op: "+", Args: []Expr{{K: "col", Name: toBS("A")}, {K: "col", Name: toBS("B")}}}}
		},
		func(f int) Step { return Step{Op: "Eval", Recv: f, Dst: toBS("$c"), Expr: &Expr{K: "const", V: &Val{T: "int", I: 1}}} },
		func(f int) Step { return Step{Op: "Eval", Recv: f, Dst: toBS("Z"), Expr: &Expr{K: "call", Op: "nosuch", Args: []Expr{{K: "col", Name: toBS("A")}}}} },
		func(f int) Step {
			return Step{Op: "Eval", Recv: f, Dst: toBS("Z"), Expr: &Expr{K: "call", Op: "+", Args: []Expr{{K: "col", Name: toBS("A")}, {K: "col", Name: toBS("F")}}}}
		},
		func(f int) Step {
			return Step{Op: "Eval", Recv: f, Dst: toBS("Z"), Expr: &Expr{K: "call", Op: "+", Args: []Expr{{K: "col", Name: toBS("A")}, {K: "const", V: &Val{T: "string", S: toBS("x")}}}}}
		},
		func(f int) Step { return Step{Op: "Eval", Recv: f, Dst: toBS("'q'"), Expr: &Expr{K: "col", Name: toBS("A")}} },
		func(f int) Step { return Step{Op: "Eval", Recv: f, Dst: toBS("Z"), Expr: &Expr{K: "col", Name: toBS("nosuch")}} },
		func(f int) Step {
			return Step{Op: "Eval", Recv: f, Dst: toBS("Z"), Expr: &Expr{K: "call", Op: "abs", Args: []Expr{{K: "call", Op: "+", Args: []Expr{{K: "col", Name: toBS("nosuch")}, {K: "const", V: &Val{T: "int", I: 1}}}}}}}
		},
		func(f int) Step { return Step{Op: "FilteredApply", Recv: f, Clause: &Clause{K: "or"}, Instrs: []Instr{{Fn: FnRef{K: "fn1", Sym: "negI"}, Dst: toBS("Z"), Src1: toBS("A")}}} },
		func(f int) Step {
			return Step{Op: "FilteredApply", Recv: f, Clause: &Clause{K: "leaf", Col: toBS("nosuch"), CmpK: "str", Cmp: "=", Arg: &Val{T: "int", I: 1}}, Instrs: []Instr{{Fn: FnRef{K: "fn1", Sym: "negI"}, Dst: toBS("Z"), Src1: toBS("A")}}}
		},
	}
	for rep := 0; rep < g.pick(4, 12); rep++ {
		for _, b := range bads {
			g.begin("bad op")
			f := base()
			if g.rng.Intn(2) == 0 {
				f = g.derive(f)
			}
			st := b(f)
			if (st.Op == "Apply" || st.Op == "FilteredApply") && len(st.Instrs) == 1 && g.rng.Intn(2) == 0 {
				// an invalid instruction in the middle: nothing after it may run
				good := func(d string) Instr { return Instr{Fn: FnRef{K: "fn1", Sym: "negI"}, Dst: toBS(d), Src1: toBS("A")} }
				st.Instrs = []Instr{good("Y1"), st.Instrs[0], good("Y2"), {Fn: FnRef{K: "fn2", Sym: "PlusI"}, Dst: toBS("Y3"), Src1: toBS("A"), Src2: toBS("B")}}
			}
			g.do(st)
			g.continuation(len(g.x.frames) - 1)
			// and the receiver itself is as usable as before: what a failed call leaves behind (buffers,
			// caches, pools) must not reach the next, valid call - on this frame or another
			if s2 := schemaOf(g.frame(f)); !s2.err && len(s2.names) > 0 {
				g.validAfterInvalid(f, s2)
				other := g.do(g.stdNew(3, "BAS", 8))
				if so := schemaOf(g.frame(other)); !so.err {
					g.validAfterInvalid(other, so)
				}
			}
			g.end()
		}
	}
	// the same invalid request several times in one process, on different frames: every one of them reports
	badPats := []string{"%ab(cd", "(", "[a", "a{2", "%*", "\\"}
	for _, pat := range badPats {
		for _, cmp := range []string{"like", "ilike"} {
			g.begin("invalid twice")
			for k := 0; k < 3; k++ {
				f := g.do(g.stdNew([]int{4, 0, 2}[k], "ASEX", 8))
				for _, col := range []string{"S", "E", "X"} {
					cl := Clause{K: "leaf", Col: toBS(col), CmpK: "str", Cmp: cmp, Arg: &Val{T: "string", S: toBS(pat)}}
					g.do(Step{Op: "Filter", Recv: f, Clause: &cl})
				}
				cl := Clause{K: "not", Subs: []Clause{{K: "leaf", Col: toBS("S"), CmpK: "str", Cmp: cmp, Arg: &Val{T: "string", S: toBS(pat)}}}}
				g.do(Step{Op: "Filter", Recv: f, Clause: &cl})
			}
			g.end()
		}
	}
	// grouper errors
	for rep := 0; rep < g.pick(6, 40); rep++ {
		g.begin("bad grouper")
		f := base()
		cols := [][]string{{"nosuch"}, {"A", "nosuch"}, {"A"}, {}}[g.rng.Intn(4)]
		g.do(Step{Op: "GroupBy", Recv: f, Cols: bsList(cols)})
		gid := len(g.x.groupers) - 1
		aggs := [][]Agg{
			{{Fn: FnRef{K: "builtin", Sym: "sum"}, Col: toBS("nosuch")}},
			{{Fn: FnRef{K: "builtin", Sym: "sum"}, Col: toBS("A")}},
			{{Fn: FnRef{K: "builtin", Sym: "nosuch"}, Col: toBS("B")}},
			{{Fn: FnRef{K: "builtin", Sym: "sum"}, Col: toBS("S")}},
			{{Fn: FnRef{K: "builtin", Sym: "majority"}, Col: toBS("B")}},
			{{Fn: FnRef{K: "agg", Sym: "firstAggF"}, Col: toBS("B")}},
			{{Fn: FnRef{K: "fn1", Sym: "negI"}, Col: toBS("B")}},
			{{Fn: FnRef{K: "bad"}, Col: toBS("B")}},
			{{Fn: FnRef{K: "builtin", Sym: "sum"}, Col: toBS("B")}, {Fn: FnRef{K: "builtin", Sym: "max"}, Col: toBS("B")}},
			{{Fn: FnRef{K: "builtin", Sym: "sum"}, Col: toBS("B"), As: toBS("F")}, {Fn: FnRef{K: "builtin", Sym: "max"}, Col: toBS("F")}},
			{{Fn: FnRef{K: "agg", Sym: "firstAggI"}, Col: toBS("B"), As: toBS("Q")}, {Fn: FnRef{K: "builtin", Sym: "count"}, Col: toBS("S")}},
		}[g.rng.Intn(11)]
		g.do(Step{Op: "Aggregate", Recv: gid, Aggs: aggs})
		g.continuation(len(g.x.frames) - 1)
		g.do(Step{Op: "QFrames", Recv: gid})
		g.end()
	}
	// 3. random chains of operations with random (in)valid arguments
	for rep := 0; rep < g.pick(30, 600); rep++ {
		g.begin("chain")
		base()
		for k := 2 + g.rng.Intn(8); k > 0; k-- {
			g.historyStep()
			if g.rng.Intn(3) == 0 {
				f := len(g.x.frames) - 1
				g.do(bads[g.rng.Intn(len(bads))](f))
			}
		}
		g.end()
	}
}

func (g *Gen) validAfterInvalid(f int, s schema) {
	c := g.oneOf(s.names)
	g.do(Step{Op: "Sort", Recv: f, Orders: []Order{{Col: toBS(c), Rev: g.rng.Intn(2) == 0}}})
	cl := g.simpleLeaf(s)
	g.do(Step{Op: "Filter", Recv: f, Clause: &cl})
	switch g.rng.Intn(4) {
	case 0:
		g.do(Step{Op: "Distinct", Recv: f, Cols: bsList([]string{c})})
	case 1:
		g.do(Step{Op: "GroupBy", Recv: f, Cols: bsList([]string{c}), Null: true})
		g.do(Step{Op: "Aggregate", Recv: len(g.x.groupers) - 1, Aggs: []Agg{{Fn: FnRef{K: "builtin", Sym: "count"}, Col: toBS(c)}}})
	case 2:
		g.do(Step{Op: "Apply", Recv: f, Instrs: g.randomInstrs(s, 2, false)})
	default:
		g.do(Step{Op: "Select", Recv: f, Cols: bsList(g.subset(s.names, 2))})
	}
}
