package main

func (x *Exec) dispatchIO(st *Step, ev Ev) {
	panic("io op not implemented: " + st.Op)
}
