package main

import (
	"encoding/json"
	"bytes"
	"fmt"
	"io"
	"math"
	"regexp"
	"strconv"

	"github.com/tobgu/qframe"
	"github.com/tobgu/qframe/config/csv"
	"github.com/tobgu/qframe/config/newqf"
)

func (x *Exec) noteLen(op string, n int) {
	if x.lastLen == nil {
		x.lastLen = map[string]int{}
	}
	x.lastLen[op] = n
}

// after an injected write fault only the fact that an error was reported is judged; the (partial)
// bytes are not logged
func bytesIfKept(b []byte, fired bool) BS {
	if fired {
		return BS{}
	}
	return bytesBS(b)
}

func intsOrEmpty(a []int) []int {
	if a == nil {
		return []int{}
	}
	return a
}

func bytesBS(b []byte) BS {
	r := make(BS, len(b))
	for i, c := range b {
		r[i] = int(c)
	}
	return r
}

// txtCells: the reference text of every cell of a frame, read through the views and rendered with
// strconv as the properties prescribe (C09/C13: ints, bools and floats as strconv formats them).
func (x *Exec) dispatchIO(st *Step, ev Ev) {
	switch st.Op {
	case "ToCSV":
		qf := x.frame(st.Recv)
		var buf bytes.Buffer
		var opts []csv.ToConfigFunc
		hdr := 1
		wcols := []BS{}
		if st.Csv != nil {
			if st.Csv.NoHeaderWrite {
				opts = append(opts, csv.Header(false))
				hdr = 0
			}
			if st.Csv.WriteCols != nil {
				opts = append(opts, csv.Columns(strList(st.Csv.WriteCols)))
				wcols = bsOrEmpty(st.Csv.WriteCols)
			}
		}
		fw := &faultWriter{buf: &buf, fault: st.Fault}
		err := qf.ToCSV(fw, opts...)
		ev["a"] = Ev{"header": hdr, "hascols": b2i(st.Csv != nil && st.Csv.WriteCols != nil), "cols": wcols}
		ev["err"] = b2i(err != nil)
		ev["fired"] = b2i(fw.fired)
		x.noteLen("ToCSV", buf.Len())
		ev["bytes"] = bytesIfKept(buf.Bytes(), fw.fired)
		if fw.fired {
			ev["txt"] = [][]BS{}
		} else {
			ev["txt"] = txtOf(qf)
		}
	case "ToJSON":
		qf := x.frame(st.Recv)
		var buf bytes.Buffer
		fw := &faultWriter{buf: &buf, fault: st.Fault}
		err := qf.ToJSON(fw)
		ev["a"] = Ev{"_": 0}
		ev["err"] = b2i(err != nil)
		ev["fired"] = b2i(fw.fired)
		x.noteLen("ToCSV", buf.Len())
		ev["bytes"] = bytesIfKept(buf.Bytes(), fw.fired)
		if fw.fired {
			ev["txt"] = [][]BS{}
		} else {
			ev["txt"] = txtOf(qf)
		}
	case "String":
		qf := x.frame(st.Recv)
		s := qf.String()
		ev["a"] = Ev{"_": 0}
		ev["err"] = 0
		ev["bytes"] = toBS(s)
		ev["txt"] = txtOf(qf)
	case "ReadCSV":
		x.readCSV(st, ev)
	case "ReadJSON":
		x.readJSON(st, ev)
	default:
		x.dispatchIO2(st, ev)
	}
}

// txtOf logs, per column, the reference rendering of each cell (strconv / the string itself);
// null cells render as the empty sequence with flag 1. Shape: [[ [null, bytes...] ... ] ... ]
func txtOf(qf qframe.QFrame) [][]BS {
	if qf.Err != nil {
		return [][]BS{}
	}
	r := [][]BS{}
	for _, n := range qf.ColumnNames() {
		col := []BS{}
		for _, v := range colVals(qf, n) {
			col = append(col, refText(v))
		}
		r = append(r, col)
	}
	return r
}

// ---------------------------------------------------------------- readers with a prescribed fragmentation

// chunkReader delivers the document in reads of the given sizes (cycled; capped by len(p)), and
// reports io.EOF either together with the last bytes or on the following call.
type chunkReader struct {
	data    []byte
	pos     int
	sizes   []int
	k       int
	eofWith bool
	fault   *FaultPos // optional: fail at byte offset fault.At
	fired   bool
}

var errInjected = fmt.Errorf("injected I/O fault")

// faultErr: the error value of an injected failure. A failure is a failure whatever its value: besides
// an anonymous error the standard sentinels that real readers and writers fail with (a truncated gzip or
// HTTP body fails with io.ErrUnexpectedEOF) - none of them is io.EOF, so none may be taken for the end
// of the input. Chosen by the fault position, so that a re-execution injects the same value.
func faultErr(at int, write bool) error {
	vals := []error{errInjected, io.ErrUnexpectedEOF, io.ErrClosedPipe, io.ErrNoProgress}
	if write {
		vals[3] = io.ErrShortWrite
	}
	return vals[at%len(vals)]
}

// faultWriter accepts at most fault.At bytes in total, then fails (and keeps failing).
type faultWriter struct {
	buf   *bytes.Buffer
	fault *FaultPos
	fired bool
}

func (w *faultWriter) Write(p []byte) (int, error) {
	if w.fault == nil {
		return w.buf.Write(p)
	}
	room := w.fault.At - w.buf.Len()
	if room >= len(p) {
		return w.buf.Write(p)
	}
	if room < 0 {
		room = 0
	}
	w.buf.Write(p[:room])
	w.fired = true
	return room, faultErr(w.fault.At, true)
}

func (r *chunkReader) Read(p []byte) (int, error) {
	if len(p) == 0 {
		return 0, nil
	}
	n := len(p)
	if len(r.sizes) > 0 {
		if s := r.sizes[r.k%len(r.sizes)]; s > 0 && s < n {
			n = s
		}
		r.k++
	}
	limit := len(r.data)
	if r.fault != nil && r.fault.At < limit {
		limit = r.fault.At
	}
	if r.pos+n > limit {
		n = limit - r.pos
	}
	if r.fault != nil && r.pos >= limit && limit == r.fault.At {
		r.fired = true
		return 0, faultErr(r.fault.At, false)
	}
	if n <= 0 {
		return 0, io.EOF
	}
	copy(p, r.data[r.pos:r.pos+n])
	r.pos += n
	if r.fault != nil && r.pos == r.fault.At && r.fault.With {
		r.fired = true
		return n, faultErr(r.fault.At, false)
	}
	if r.pos == len(r.data) && r.eofWith && r.fault == nil {
		return n, io.EOF
	}
	return n, nil
}

// splitFields: the harness' own permissive RFC 4180 splitter. It is used ONLY to enumerate the
// field texts for which the strconv reference verdicts are logged (DESIGN 3.2); what the document
// denotes is decided by Csv.tla.
func splitFields(doc []byte, delim byte, keepCR bool, out map[string]bool) {
	fld := []byte{}
	inQ := false
	flush := func() { out[string(fld)] = true; fld = fld[:0] }
	for i := 0; i < len(doc); i++ {
		c := doc[i]
		if inQ {
			if c == '"' {
				if i+1 < len(doc) && doc[i+1] == '"' {
					fld = append(fld, '"')
					i++
				} else {
					inQ = false
				}
			} else if c == '\r' && i+1 < len(doc) && doc[i+1] == '\n' && !keepCR {
				// dropped
			} else {
				fld = append(fld, c)
			}
			continue
		}
		switch {
		case c == '"' && len(fld) == 0:
			inQ = true
		case c == delim:
			flush()
		case c == '\n':
			if n := len(fld); n > 0 && fld[n-1] == '\r' {
				fld = fld[:n-1]
			}
			flush()
		default:
			fld = append(fld, c)
		}
	}
	if n := len(fld); n > 0 && fld[n-1] == '\r' {
		fld = fld[:n-1]
	}
	flush()
}

func parseTable(doc []byte, delim byte) [][]interface{} {
	set := map[string]bool{}
	splitFields(doc, delim, true, set)
	splitFields(doc, delim, false, set)
	keys := make([]string, 0, len(set))
	for k := range set {
		keys = append(keys, k)
	}
	sortStrings(keys)
	rows := [][]interface{}{}
	for _, k := range keys {
		ic, fc, bc := Cell{1}, Cell{1}, Cell{1}
		if v, err := strconv.Atoi(k); err == nil {
			ic = encInt(v)
		}
		if v, err := strconv.ParseFloat(k, 64); err == nil {
			if math.IsNaN(v) {
				fc = Cell{5}
			} else {
				fc = encFloat(v)
			}
		}
		if v, err := strconv.ParseBool(k); err == nil {
			bc = encBool(v)
		}
		rows = append(rows, []interface{}{toBS(k), ic, fc, bc})
	}
	return rows
}

func (c *CsvConf) readOpts() []csv.ConfigFunc {
	opts := []csv.ConfigFunc{csv.EmptyNull(c.EmptyNull), csv.IgnoreEmptyLines(c.IgnoreEmpty)}
	if c.Delim != 0 {
		opts = append(opts, csv.Delimiter(byte(c.Delim)))
	}
	if c.HasTypes {
		m := map[string]string{}
		for _, t := range c.Types {
			m[t.Name.String()] = t.Typ
		}
		opts = append(opts, csv.Types(m))
	}
	if c.HasEnumVals {
		m := map[string][]string{}
		for _, e := range c.EnumVals {
			m[e.Name.String()] = strList(e.Vals)
		}
		opts = append(opts, csv.EnumValues(m))
	}
	if c.RowCountHint != 0 {
		opts = append(opts, csv.RowCountHint(c.RowCountHint))
	}
	if c.Headers != nil {
		opts = append(opts, csv.Headers(strList(c.Headers)))
	}
	if c.RenameDup {
		opts = append(opts, csv.RenameDuplicateColumns(true))
	}
	if c.MissingAlias != nil {
		opts = append(opts, csv.MissingColumnNameAlias(c.MissingAlias.String()))
	}
	return opts
}

func (c *CsvConf) tla() Ev {
	delim := c.Delim
	if delim == 0 {
		delim = ','
	}
	types := []Ev{}
	for _, t := range c.Types {
		types = append(types, Ev{"name": t.Name, "typ": t.Typ})
	}
	return Ev{"emptynull": b2i(c.EmptyNull), "ignoreempty": b2i(c.IgnoreEmpty), "delim": delim, "types": types,
		"enumvals": enumsTla(c.EnumVals), "headers": bsOrEmpty(c.Headers), "renamedup": b2i(c.RenameDup), "alias": bsOr(c.MissingAlias)}
}

var numTok = regexp.MustCompile(`-?[0-9][0-9eE+\-.]*`)

func (x *Exec) readCSV(st *Step, ev Ev) {
	conf := st.Csv
	if conf == nil {
		conf = &CsvConf{}
	}
	doc := []byte(st.Doc.String())
	rt := -1
	if st.Other > 0 { // document = what ToCSV writes for frame Other-1 (round trip, C13)
		rt = st.Other - 1
		var buf bytes.Buffer
		var wopts []csv.ToConfigFunc
		if conf.NoHeaderWrite {
			wopts = append(wopts, csv.Header(false))
		}
		if err := x.frame(rt).ToCSV(&buf, wopts...); err != nil {
			panic("round trip: ToCSV failed: " + err.Error())
		}
		doc = buf.Bytes()
	}
	delim := byte(',')
	if conf.Delim != 0 {
		delim = byte(conf.Delim)
	}
	rd := &chunkReader{data: doc, sizes: st.Reads, eofWith: conf.EOFWithData, fault: st.Fault}
	ev["a"] = Ev{"doc": bytesBS(doc), "conf": conf.tla(), "parse": parseTable(doc, delim), "rt": rt, "reads": intsOrEmpty(st.Reads)}
	qf := qframe.ReadCSV(rd, x.sharedCsvOpts(conf)...)
	ev["fired"] = b2i(rd.fired)
	if rd.fired {
		ev["a"].(Ev)["parse"] = [][]interface{}{}
	}
	x.result(ev, qf)
}

func (x *Exec) readJSON(st *Step, ev Ev) {
	doc := []byte(st.Doc.String())
	rt := -1
	conv := [][]Cell{}
	var fns []newqf.ConfigFunc
	order, enums := []BS{}, []Ev{}
	hasorder, hasenums := 0, 0
	if st.Other > 0 {
		rt = st.Other - 1
		src := x.frame(rt)
		var buf bytes.Buffer
		if err := src.ToJSON(&buf); err != nil {
			panic("round trip: ToJSON failed: " + err.Error())
		}
		doc = buf.Bytes()
		names := src.ColumnNames()
		fns = append(fns, newqf.ColumnOrder(names...))
		hasorder, order = 1, bsList(names)
		em := map[string][]string{}
		for _, n := range names {
			switch colType(src, n) {
			case "enum":
				em[n] = nil
				enums = append(enums, Ev{"name": toBS(n), "vals": []BS{}})
			case "int":
				conv = append(conv, convTable(colVals(src, n))...)
			}
		}
		if len(em) > 0 {
			fns = append(fns, newqf.Enums(em))
			hasenums = 1
		}
	} else {
		if st.HasOrder {
			fns = append(fns, newqf.ColumnOrder(strList(st.ColOrder)...))
			hasorder, order = 1, bsOrEmpty(st.ColOrder)
		}
		if st.HasEnums {
			m := map[string][]string{}
			for _, e := range st.Enums {
				m[e.Name.String()] = strList(e.Vals)
			}
			fns = append(fns, newqf.Enums(m))
			hasenums, enums = 1, enumsTla(st.Enums)
		}
	}
	fparse := [][]Cell{}
	seen := map[string]bool{}
	for _, tok := range numTok.FindAll(doc, -1) {
		s := string(tok)
		if seen[s] {
			continue
		}
		seen[s] = true
		if v, err := strconv.ParseFloat(s, 64); err == nil {
			fparse = append(fparse, []Cell{encStr(s), encFloat(v)})
		}
	}
	rd := &chunkReader{data: doc, sizes: st.Reads, fault: st.Fault}
	ev["a"] = Ev{"doc": bytesBS(doc), "conf": Ev{"hasorder": hasorder, "order": order, "hasenums": hasenums, "enums": enums}, "fparse": fparse, "rt": rt, "conv": conv}
	qf := qframe.ReadJSON(rd, fns...)
	ev["fired"] = b2i(rd.fired)
	x.result(ev, qf)
}

// sharedCsvOpts: within one scenario, equal configurations are handed to ReadCSV as the very same option
// values (the same maps and slices) - as a caller does who builds his options once and reads several
// documents with them. What one call does to its arguments must not reach the next.
func (x *Exec) sharedCsvOpts(conf *CsvConf) []csv.ConfigFunc {
	if x.optScn != x.scn || x.csvOpts == nil {
		x.optScn, x.csvOpts, x.enumMaps = x.scn, map[string][]csv.ConfigFunc{}, map[string]map[string][]string{}
	}
	b, _ := json.Marshal(conf)
	if o, ok := x.csvOpts[string(b)]; ok {
		return o
	}
	o := conf.readOpts()
	x.csvOpts[string(b)] = o
	return o
}
