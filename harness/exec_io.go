package main

import (
	"bytes"

	"github.com/tobgu/qframe"
	"github.com/tobgu/qframe/config/csv"
)

func bytesBS(b []byte) BS {
	r := make(BS, len(b))
	for i, c := range b {
		r[i] = int(c)
	}
	return r
}

// txtCells: the reference text of every cell of a frame, read through the views and rendered with
// strconv as the properties prescribe (C09/C13: ints, bools and floats as strconv formats them).
func (x *Exec) dispatchIO(st *Step, ev Ev) {
	switch st.Op {
	case "ToCSV":
		qf := x.frame(st.Recv)
		var buf bytes.Buffer
		var opts []csv.ToConfigFunc
		hdr := 1
		wcols := []BS{}
		if st.Csv != nil {
			if st.Csv.NoHeaderWrite {
				opts = append(opts, csv.Header(false))
				hdr = 0
			}
			if st.Csv.WriteCols != nil {
				opts = append(opts, csv.Columns(strList(st.Csv.WriteCols)))
				wcols = st.Csv.WriteCols
			}
		}
		err := qf.ToCSV(&buf, opts...)
		ev["a"] = Ev{"header": hdr, "hascols": b2i(st.Csv != nil && st.Csv.WriteCols != nil), "cols": wcols}
		ev["err"] = b2i(err != nil)
		ev["bytes"] = bytesBS(buf.Bytes())
		ev["txt"] = txtOf(qf)
	case "ToJSON":
		qf := x.frame(st.Recv)
		var buf bytes.Buffer
		err := qf.ToJSON(&buf)
		ev["a"] = Ev{"_": 0}
		ev["err"] = b2i(err != nil)
		ev["bytes"] = bytesBS(buf.Bytes())
		ev["txt"] = txtOf(qf)
	case "String":
		qf := x.frame(st.Recv)
		s := qf.String()
		ev["a"] = Ev{"_": 0}
		ev["err"] = 0
		ev["bytes"] = toBS(s)
		ev["txt"] = txtOf(qf)
	default:
		x.dispatchIO2(st, ev)
	}
}

// txtOf logs, per column, the reference rendering of each cell (strconv / the string itself);
// null cells render as the empty sequence with flag 1. Shape: [[ [null, bytes...] ... ] ... ]
func txtOf(qf qframe.QFrame) [][]BS {
	if qf.Err != nil {
		return [][]BS{}
	}
	r := [][]BS{}
	for _, n := range qf.ColumnNames() {
		col := []BS{}
		for _, v := range colVals(qf, n) {
			col = append(col, refText(v))
		}
		r = append(r, col)
	}
	return r
}
