package main

import (
	"math"

	"github.com/tobgu/qframe"
	"github.com/tobgu/qframe/config/newqf"
	"github.com/tobgu/qframe/internal/column"
	"github.com/tobgu/qframe/internal/index"
	qfsort "github.com/tobgu/qframe/internal/sort"
)

func init() { generators["C03"] = genC03 }

// McIlroy's adversary ("A Killer Adversary for Quicksort", 1999) as a column.Comparable, run
// against the repository's own internal/sort: values are decided lazily so that every pivot the
// sorter picks turns out to be (nearly) minimal. The frozen values are then an ordinary int column
// that drives the real Sort through its depth limit into the heapsort fall-back - whatever pivot
// code is in the tree.
type adversary struct {
	val       []int
	gas       int
	nsolid    int
	candidate uint32
	ncmp      int
}

func (a *adversary) freeze(x uint32) { a.val[x] = a.nsolid; a.nsolid++ }

func (a *adversary) Compare(i, j uint32) column.CompareResult {
	a.ncmp++
	if a.val[i] == a.gas && a.val[j] == a.gas {
		if i == a.candidate {
			a.freeze(i)
		} else {
			a.freeze(j)
		}
	}
	if a.val[i] == a.gas {
		a.candidate = i
	} else if a.val[j] == a.gas {
		a.candidate = j
	}
	if a.val[i] < a.val[j] {
		return column.LessThan
	}
	if a.val[i] > a.val[j] {
		return column.GreaterThan
	}
	return column.Equal
}

func (a *adversary) Hash(i uint32, seed uint64) uint64 { return 0 }

func antiQuicksort(n int) []int64 {
	a := &adversary{val: make([]int, n), gas: n}
	for i := range a.val {
		a.val[i] = n
	}
	ix := index.NewAscending(uint32(n))
	qfsort.New(ix, []column.Comparable{a}).Sort()
	r := make([]int64, n)
	for i, v := range a.val {
		if v == a.gas {
			v = a.nsolid
			a.nsolid++
		}
		r[i] = int64(v)
	}
	return r
}

func (g *Gen) sortOrders(s schema, maxKeys int) []Order {
	k := 1 + g.rng.Intn(maxKeys)
	os := []Order{}
	for i := 0; i < k; i++ {
		c := g.oneOf(s.names)
		if g.rng.Intn(50) == 0 {
			c = "nosuch"
		}
		os = append(os, Order{Col: toBS(c), Rev: g.rng.Intn(2) == 0, NullLast: g.rng.Intn(2) == 0})
	}
	return os
}

func genC03(g *Gen) {
	rid := toBS("rid")
	sizes := []int{0, 1, 2, 3, 5, 8, 12, 13, 14, 25, 39, 40, 41, 42, 60, 97, 150, 300}
	if g.thorough() {
		sizes = append(sizes, 500, 1000, 2000, 5000)
	}
	colsets := []string{"A", "F", "T", "S", "E", "X", "AB", "FS", "TE", "ABF", "SXT", "GEB", "FGSRED"}
	for rep := 0; rep < g.pick(3, 30); rep++ {
		for _, n := range sizes {
			if n >= 1000 && rep >= 4 {
				continue
			}
			spread := []int{1, 2, 3, 5, 10, 18}[g.rng.Intn(6)] // tie density
			g.begin("sort")
			f := g.do(g.stdNew(n, colsets[g.rng.Intn(len(colsets))], spread))
			if n <= 300 && g.rng.Intn(2) == 0 {
				f = g.derive(f)
			}
			s := schemaOf(g.frame(f))
			if s.err || len(s.names) == 0 {
				g.end()
				continue
			}
			f = g.do(Step{Op: "WithRowNums", Recv: f, Dst: rid})
			for k := 0; k < g.pick(2, 3); k++ {
				g.do(Step{Op: "Sort", Recv: f, Orders: g.sortOrders(s, 3), Rid: rid})
			}
			// sorting a sorted frame again (ties already arranged; a different regime for the pivots)
			last := len(g.x.frames) - 1
			if g.frame(last).Err == nil {
				l2 := g.do(Step{Op: "Drop", Recv: last, Cols: []BS{rid}})
				l2 = g.do(Step{Op: "WithRowNums", Recv: l2, Dst: rid})
				g.do(Step{Op: "Sort", Recv: l2, Orders: g.sortOrders(s, 2), Rid: rid})
			}
			g.end()
		}
	}
	// a Sort that fails after some of its keys were accepted, then valid ones - on this frame and another
	for rep := 0; rep < g.pick(12, 100); rep++ {
		g.begin("sort after failed sort")
		f := g.do(g.stdNew([]int{3, 5, 14, 30}[g.rng.Intn(4)], "ABFS", 6))
		o := g.do(g.stdNew([]int{2, 5, 20}[g.rng.Intn(3)], "BAX", 6))
		f = g.do(Step{Op: "WithRowNums", Recv: f, Dst: rid})
		o = g.do(Step{Op: "WithRowNums", Recv: o, Dst: rid})
		for k := 0; k < 3; k++ {
			bad := [][]Order{{{Col: toBS("A"), Rev: true}, {Col: toBS("nosuch")}}, {{Col: toBS("F")}, {Col: toBS("S"), Rev: true}, {Col: toBS("")}}, {{Col: toBS("nosuch")}}}[g.rng.Intn(3)]
			g.do(Step{Op: "Sort", Recv: f, Orders: bad})
			g.do(Step{Op: "Sort", Recv: g.oneOf2(f, o), Orders: []Order{{Col: toBS("B"), Rev: g.rng.Intn(2) == 0}}, Rid: rid})
			g.do(Step{Op: "Sort", Recv: g.oneOf2(f, o), Orders: []Order{{Col: toBS("A")}, {Col: toBS("B")}}, Rid: rid})
		}
		g.end()
	}
	// many keys: rows tied on the first four, five ... decided by the last
	for rep := 0; rep < g.pick(30, 300); rep++ {
		n := []int{3, 8, 12, 13, 40, 41}[g.rng.Intn(6)]
		nk := 4 + g.rng.Intn(4)
		st := Step{Op: "New", Recv: -1, HasOrder: true}
		ords := []Order{}
		for k := 0; k < nk; k++ {
			v := make([]int64, n)
			for i := range v {
				v[i] = int64(g.rng.Intn(2))
				if k == nk-1 {
					v[i] = int64(g.rng.Intn(n))
				}
			}
			name := toBS("K" + itoa(k))
			st.Data = append(st.Data, ColData{Name: name, Kind: "int", Ints: v})
			st.ColOrder = append(st.ColOrder, name)
			ords = append(ords, Order{Col: name, Rev: g.rng.Intn(4) == 0})
		}
		g.begin("sort by many keys")
		f := g.do(st)
		f = g.do(Step{Op: "WithRowNums", Recv: f, Dst: rid})
		g.do(Step{Op: "Sort", Recv: f, Orders: append(ords, Order{Col: rid}), Rid: rid})
		g.do(Step{Op: "Sort", Recv: f, Orders: ords, Rid: rid})
		g.end()
	}
	// later keys decide between rows that are tied on the earlier ones - also where the tie is null = null
	for rep := 0; rep < g.pick(60, 600); rep++ {
		n := 3 + g.rng.Intn(6)
		k1, k3 := make([]int64, n), make([]int64, n)
		f2 := make([]string, n)
		s2 := make([]*BS, n)
		for i := 0; i < n; i++ {
			k1[i], k3[i] = int64(g.rng.Intn(2)), int64(g.rng.Intn(n))
			f2[i] = []string{"NaN", "NaN", "1.5", "0"}[g.rng.Intn(4)]
			if g.rng.Intn(2) == 0 {
				s2[i] = bsp([]string{"p", "q"}[g.rng.Intn(2)])
			}
		}
		g.begin("sort by three keys")
		f := g.do(Step{Op: "New", Recv: -1, HasOrder: true, ColOrder: bsList([]string{"K1", "F2", "S2", "K3"}), HasEnums: g.rng.Intn(2) == 0,
			Enums: []EnumDecl{{Name: toBS("S2"), Vals: nil}},
			Data: []ColData{{Name: toBS("K1"), Kind: "int", Ints: k1}, {Name: toBS("F2"), Kind: "float", Floats: f2}, {Name: toBS("S2"), Kind: "string", Strs: s2}, {Name: toBS("K3"), Kind: "int", Ints: k3}}})
		f = g.do(Step{Op: "WithRowNums", Recv: f, Dst: rid})
		for _, mid := range []string{"F2", "S2"} {
			g.do(Step{Op: "Sort", Recv: f, Orders: []Order{{Col: toBS("K1")}, {Col: toBS(mid), NullLast: g.rng.Intn(2) == 0, Rev: g.rng.Intn(3) == 0}, {Col: toBS("K3"), Rev: g.rng.Intn(2) == 0}, {Col: rid}}, Rid: rid})
			g.do(Step{Op: "Sort", Recv: f, Orders: []Order{{Col: toBS(mid)}, {Col: toBS("K3")}, {Col: rid, Rev: true}}, Rid: rid})
		}
		g.end()
	}
	g.sortArranged(rid)
	g.sortExtremes(rid)
	g.sortTiePatterns(rid)
	// adversarial inputs: quicksort killers for the sorter that is in the tree
	for _, n := range []int{50, 51, 100, 101, 256, 257, 1000, 1001, g.pick(2000, 5000)} {
		vals := antiQuicksort(n)
		g.begin("antiquicksort")
		f := g.do(Step{Op: "New", Recv: -1, Data: []ColData{{Name: toBS("K"), Kind: "int", Ints: vals}}})
		f = g.do(Step{Op: "WithRowNums", Recv: f, Dst: rid})
		g.do(Step{Op: "Sort", Recv: f, Orders: []Order{{Col: toBS("K")}}, Rid: rid})
		g.do(Step{Op: "Sort", Recv: f, Orders: []Order{{Col: toBS("K"), Rev: true}}, Rid: rid})
		g.end()
	}
	g.sortStringExtremes(rid)
}

// sortStringExtremes: string keys at the ends of the byte-wise order - one string a prefix of another and
// extended by the smallest (0x00, 0x01) or largest (0xFF) byte, lengths around a machine word (7, 8, 9, 16, 17),
// bytes on both sides of 0x7F/0x80 (signed vs unsigned byte comparison) - alone and followed by a second key.
func (g *Gen) sortStringExtremes(rid BS) {
	w7, w8 := "abcdefg", "abcdefgh"
	w16 := w8 + w8
	pool := []string{"", "\x00", "\x00\x00", "\x01", "a", "a\x00", "a\x00\x00", "a\x00\x01", "a\x01", "a\xff", "ab", "ab\x00", "b",
		w7, w7 + "\x00", w8, w8 + "\x00", w8 + "\x00\x00", w8 + "\x01", w8 + "i", w7 + "\xff", w16, w16 + "\x00", w16 + "a",
		"\x7f", "\x80", "\xff", "\xff\xff", "\xff\x00", "a\x7f", "a\x80"}
	for _, n := range []int{2, 3, 5, 10, 13, 16, 40, 100} {
		for rep := 0; rep < g.pick(3, 12); rep++ {
			// a sub-pool of closely related strings, so that neighbours differ only in their tail
			start := g.rng.Intn(len(pool))
			width := 2 + g.rng.Intn(6)
			st, k := make([]*BS, n), make([]int64, n)
			for i := range st {
				k[i] = int64(g.rng.Intn(3))
				if g.rng.Intn(12) != 0 {
					st[i] = bsp(pool[(start+g.rng.Intn(width))%len(pool)])
				}
			}
			g.begin("sort string extremes")
			f := g.do(Step{Op: "New", Recv: -1, HasOrder: true, ColOrder: bsList([]string{"S", "K"}),
				Data: []ColData{{Name: toBS("S"), Kind: "string", Strs: st}, {Name: toBS("K"), Kind: "int", Ints: k}}})
			f = g.do(Step{Op: "WithRowNums", Recv: f, Dst: rid})
			g.do(Step{Op: "Sort", Recv: f, Orders: []Order{{Col: toBS("S"), Rev: g.rng.Intn(2) == 0, NullLast: g.rng.Intn(2) == 0}}, Rid: rid})
			g.do(Step{Op: "Sort", Recv: f, Orders: []Order{{Col: toBS("S")}, {Col: toBS("K"), Rev: true}}, Rid: rid})
			g.do(Step{Op: "Sort", Recv: f, Orders: []Order{{Col: toBS("K")}, {Col: toBS("S"), Rev: true}}, Rid: rid})
			g.end()
		}
	}
}

// sortArranged: key columns whose STORAGE is already in order (or in reverse order) while the frame
// order is any arrangement of it (all permutations of <= 4 rows, random ones above; slices), then sorted
// both ways: what counts is the frame's order, not the storage's.
func (g *Gen) sortArranged(rid BS) {
	for _, n := range []int{2, 3, 4, 5, 8, 13, 20, 100} {
		perms := permsOf(minI(n, 4))
		if n > 4 {
			perms = nil
			for k := 0; k < g.pick(4, 20); k++ {
				perms = append(perms, g.rng.Perm(n))
			}
		}
		for _, perm := range perms {
			ties := g.rng.Intn(3) == 0
			desc := g.rng.Intn(3) == 0
			k, p := make([]int64, n), make([]int64, n)
			fl := make([]string, n)
			st := make([]*BS, n)
			for i := 0; i < n; i++ {
				v := i
				if ties {
					v = i / 2
				}
				if desc {
					v = n - v
				}
				k[i], fl[i], st[i] = int64(v), itoa(v)+".5", bsp(string(rune('a'+v%26))+itoa(v/26))
				p[i] = int64(perm[i])
			}
			g.begin("sort arranged")
			f := g.do(Step{Op: "New", Recv: -1, HasOrder: true, ColOrder: bsList([]string{"K", "F", "S", "P"}),
				Data: []ColData{{Name: toBS("K"), Kind: "int", Ints: k}, {Name: toBS("F"), Kind: "float", Floats: fl}, {Name: toBS("S"), Kind: "string", Strs: st}, {Name: toBS("P"), Kind: "int", Ints: p}}})
			f = g.do(Step{Op: "WithRowNums", Recv: f, Dst: rid})
			arr := g.do(Step{Op: "Sort", Recv: f, Orders: []Order{{Col: toBS("P")}}, Rid: rid})
			if n > 4 && g.rng.Intn(2) == 0 {
				a := g.rng.Intn(n / 2)
				arr = g.do(Step{Op: "Slice", Recv: arr, A: a, B: a + n/2})
			}
			for _, c := range []string{"K", "F", "S"} {
				g.do(Step{Op: "Sort", Recv: arr, Orders: []Order{{Col: toBS(c)}}, Rid: rid})
				g.do(Step{Op: "Sort", Recv: arr, Orders: []Order{{Col: toBS(c), Rev: true}}, Rid: rid})
			}
			g.do(Step{Op: "Sort", Recv: g.do(Step{Op: "Sort", Recv: arr, Orders: []Order{{Col: toBS("K"), Rev: true}}, Rid: rid}), Orders: []Order{{Col: toBS("K")}}, Rid: rid})
			g.end()
		}
	}
}

// sortExtremes: keys at the ends of their type's range, where "x - y" is no comparison
func (g *Gen) sortExtremes(rid BS) {
	ints := []int64{math.MinInt64, math.MinInt64 + 1, -5000000000000000000, -(1 << 62), -1, 0, 1, 1 << 62, 5000000000000000000, math.MaxInt64 - 1, math.MaxInt64}
	floats := []string{"-Inf", "-1.7976931348623157e308", "-1e300", "-5e-324", "-0", "0", "5e-324", "1e300", "1.7976931348623157e308", "+Inf", "NaN"}
	for _, n := range []int{2, 3, 5, 10, 13, 16, 40, 100} {
		for rep := 0; rep < g.pick(3, 12); rep++ {
			k, fl := make([]int64, n), make([]string, n)
			for i := range k {
				k[i], fl[i] = ints[g.rng.Intn(len(ints))], floats[g.rng.Intn(len(floats))]
			}
			g.begin("sort extremes")
			f := g.do(Step{Op: "New", Recv: -1, HasOrder: true, ColOrder: bsList([]string{"K", "F"}),
				Data: []ColData{{Name: toBS("K"), Kind: "int", Ints: k}, {Name: toBS("F"), Kind: "float", Floats: fl}}})
			f = g.do(Step{Op: "WithRowNums", Recv: f, Dst: rid})
			for _, c := range []string{"K", "F"} {
				g.do(Step{Op: "Sort", Recv: f, Orders: []Order{{Col: toBS(c), Rev: g.rng.Intn(2) == 0, NullLast: g.rng.Intn(2) == 0}}, Rid: rid})
			}
			g.do(Step{Op: "Sort", Recv: f, Orders: []Order{{Col: toBS("K")}, {Col: toBS("F"), Rev: true}}, Rid: rid})
			g.end()
		}
	}
}

// sortTiePatterns: the partition step of the sorter (frames above its insertion-sort threshold of 12
// rows) on heavily tied keys. The space of tie patterns is enumerated (every array of 13..16 rows over
// two values, of 13 rows over three - all of 13, 14 in the thorough tier) by sorting each directly; a
// scenario is recorded - and judged by the specification like any other - for every array whose result
// looks out of order to a cheap scan, plus a sample of the rest. The scan only selects what is
// forwarded; it decides nothing.
func (g *Gen) sortTiePatterns(rid BS) {
	type job struct{ n, base, limit int }
	jobs := []job{{13, 2, 0}, {14, 2, 0}, {15, 2, 0}, {16, 2, 0}, {13, 3, g.pick(150000, 0)}, {14, 3, g.pick(150000, 0)}, {18, 3, g.pick(60000, 600000)}, {27, 4, g.pick(40000, 400000)}, {41, 5, g.pick(20000, 200000)}, {64, 3, g.pick(10000, 100000)}}
	forwarded := 0
	for _, jb := range jobs {
		total := 1
		exhaustive := jb.limit == 0
		if exhaustive {
			for i := 0; i < jb.n; i++ {
				total *= jb.base
			}
		} else {
			total = jb.limit
		}
		vals := make([]int, jb.n)
		for code := 0; code < total; code++ {
			if exhaustive {
				c := code
				for i := range vals {
					vals[i] = c % jb.base
					c /= jb.base
				}
			} else {
				for i := range vals {
					vals[i] = g.rng.Intn(jb.base)
				}
			}
			qf := qframe.New(map[string]interface{}{"K": vals}, newqf.ColumnOrder("K"))
			out := qf.Sort(qframe.Order{Column: "K"})
			suspicious := out.Err != nil || out.Len() != jb.n
			if !suspicious {
				v := out.MustIntView("K")
				cnt := make([]int, jb.base)
				for i := 0; i < jb.n; i++ {
					x := v.ItemAt(i)
					if x < 0 || x >= jb.base || (i > 0 && v.ItemAt(i-1) > x) {
						suspicious = true
						break
					}
					cnt[x]++
				}
				for _, x := range vals {
					cnt[x]--
				}
				for _, c := range cnt {
					if c != 0 {
						suspicious = true
					}
				}
			}
			if (suspicious && forwarded < 40) || (code%(total/25+1) == 0) {
				if suspicious {
					forwarded++
				}
				k := make([]int64, jb.n)
				for i, x := range vals {
					k[i] = int64(x)
				}
				g.begin("sort tie pattern")
				f := g.do(Step{Op: "New", Recv: -1, Data: []ColData{{Name: toBS("K"), Kind: "int", Ints: k}}})
				f = g.do(Step{Op: "WithRowNums", Recv: f, Dst: rid})
				g.do(Step{Op: "Sort", Recv: f, Orders: []Order{{Col: toBS("K")}}, Rid: rid})
				g.do(Step{Op: "Sort", Recv: f, Orders: []Order{{Col: toBS("K")}, {Col: rid, Rev: true}}, Rid: rid})
				g.end()
			}
		}
	}
}
