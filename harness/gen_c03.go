package main

import (
	"github.com/tobgu/qframe/internal/column"
	"github.com/tobgu/qframe/internal/index"
	qfsort "github.com/tobgu/qframe/internal/sort"
)

func init() { generators["C03"] = genC03 }

// McIlroy's adversary ("A Killer Adversary for Quicksort", 1999) as a column.Comparable, run
// against the repository's own internal/sort: values are decided lazily so that every pivot the
// sorter picks turns out to be (nearly) minimal. The frozen values are then an ordinary int column
// that drives the real Sort through its depth limit into the heapsort fall-back - whatever pivot
// code is in the tree.
type adversary struct {
	val       []int
	gas       int
	nsolid    int
	candidate uint32
	ncmp      int
}

func (a *adversary) freeze(x uint32) { a.val[x] = a.nsolid; a.nsolid++ }

func (a *adversary) Compare(i, j uint32) column.CompareResult {
	a.ncmp++
	if a.val[i] == a.gas && a.val[j] == a.gas {
		if i == a.candidate {
			a.freeze(i)
		} else {
			a.freeze(j)
		}
	}
	if a.val[i] == a.gas {
		a.candidate = i
	} else if a.val[j] == a.gas {
		a.candidate = j
	}
	if a.val[i] < a.val[j] {
		return column.LessThan
	}
	if a.val[i] > a.val[j] {
		return column.GreaterThan
	}
	return column.Equal
}

func (a *adversary) Hash(i uint32, seed uint64) uint64 { return 0 }

func antiQuicksort(n int) []int64 {
	a := &adversary{val: make([]int, n), gas: n}
	for i := range a.val {
		a.val[i] = n
	}
	ix := index.NewAscending(uint32(n))
	qfsort.New(ix, []column.Comparable{a}).Sort()
	r := make([]int64, n)
	for i, v := range a.val {
		if v == a.gas {
			v = a.nsolid
			a.nsolid++
		}
		r[i] = int64(v)
	}
	return r
}

func (g *Gen) sortOrders(s schema, maxKeys int) []Order {
	k := 1 + g.rng.Intn(maxKeys)
	os := []Order{}
	for i := 0; i < k; i++ {
		c := g.oneOf(s.names)
		if g.rng.Intn(50) == 0 {
			c = "nosuch"
		}
		os = append(os, Order{Col: toBS(c), Rev: g.rng.Intn(2) == 0, NullLast: g.rng.Intn(2) == 0})
	}
	return os
}

func genC03(g *Gen) {
	rid := toBS("rid")
	sizes := []int{0, 1, 2, 3, 5, 8, 12, 13, 14, 25, 39, 40, 41, 42, 60, 97, 150, 300}
	if g.thorough() {
		sizes = append(sizes, 500, 1000, 2000, 5000)
	}
	colsets := []string{"A", "F", "T", "S", "E", "X", "AB", "FS", "TE", "ABF", "SXT", "GEB", "FGSRED"}
	for rep := 0; rep < g.pick(3, 30); rep++ {
		for _, n := range sizes {
			if n >= 1000 && rep >= 4 {
				continue
			}
			spread := []int{1, 2, 3, 5, 10, 18}[g.rng.Intn(6)] // tie density
			g.begin("sort")
			f := g.do(g.stdNew(n, colsets[g.rng.Intn(len(colsets))], spread))
			if n <= 300 && g.rng.Intn(2) == 0 {
				f = g.derive(f)
			}
			s := schemaOf(g.frame(f))
			if s.err || len(s.names) == 0 {
				g.end()
				continue
			}
			f = g.do(Step{Op: "WithRowNums", Recv: f, Dst: rid})
			for k := 0; k < g.pick(2, 3); k++ {
				g.do(Step{Op: "Sort", Recv: f, Orders: g.sortOrders(s, 3), Rid: rid})
			}
			// sorting a sorted frame again (ties already arranged; a different regime for the pivots)
			last := len(g.x.frames) - 1
			if g.frame(last).Err == nil {
				l2 := g.do(Step{Op: "Drop", Recv: last, Cols: []BS{rid}})
				l2 = g.do(Step{Op: "WithRowNums", Recv: l2, Dst: rid})
				g.do(Step{Op: "Sort", Recv: l2, Orders: g.sortOrders(s, 2), Rid: rid})
			}
			g.end()
		}
	}
	// adversarial inputs: quicksort killers for the sorter that is in the tree
	for _, n := range []int{50, 100, 257, 1000, g.pick(2000, 5000)} {
		vals := antiQuicksort(n)
		g.begin("antiquicksort")
		f := g.do(Step{Op: "New", Recv: -1, Data: []ColData{{Name: toBS("K"), Kind: "int", Ints: vals}}})
		f = g.do(Step{Op: "WithRowNums", Recv: f, Dst: rid})
		g.do(Step{Op: "Sort", Recv: f, Orders: []Order{{Col: toBS("K")}}, Rid: rid})
		g.do(Step{Op: "Sort", Recv: f, Orders: []Order{{Col: toBS("K"), Rev: true}}, Rid: rid})
		g.end()
	}
}
