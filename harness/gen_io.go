package main

import (
	"bytes"
	"encoding/json"
	"github.com/tobgu/qframe"
	"github.com/tobgu/qframe/config/newqf"
	"math"
	"strconv"
)

func init() {
	generators["C09"] = genC09
	generators["C12"] = genC12
	generators["C13"] = genC13
	generators["C14"] = genC14
}

// strings over arbitrary bytes except CR (C13) / over arbitrary bytes (C14)
var csvNasty = []string{"", "a", ",", "\"", "\"\"", "\n", "a,b", "a\"b", "x\ny", " lead", "trail ", "\xff", "a\xc3", "\x00", "é", "\\.", "\\", "'", "\t", "a\n", "\nb", ",,", "\"q\"", "0", "1.5", "true", "NaN", "long long long long long long long long long"}
var jsonNasty = []string{"\ufffd", "x\ufffdy\ufffd", "\ufeffa", "\U0010ffff", "\ud7ff\ue000", "", "a", "\"", "\\", "/", "\x00", "\x01", "\x1f", "\x7f", "\x08", "\x0c", "\n", "\r", "\t", "\xe2\x80\xa8", "\xe2\x80\xa9", "é", "\xff", "a\xc3", "\xc3", "\xe2\x80", "\xed\xa0\x80", "\xf4\x90\x80\x80", "\xc0\xaf", "𝄞", "\\u0041", "a\"b\\c", "</script>", "\x80"}

func floatVariety(g *Gen) string {
	switch g.rng.Intn(8) {
	case 0:
		return floatPool[g.rng.Intn(len(floatPool))]
	case 1: // any exponent, random mantissa
		return fmtFloat(math.Float64frombits(uint64(g.rng.Intn(2047))<<52 | uint64(g.rng.Int63())&(1<<52-1) | uint64(g.rng.Intn(2))<<63))
	case 2:
		return fmtFloat(float64(g.rng.Intn(2000)-1000) / 8)
	case 3:
		return fmtFloat(math.Pow(10, float64(g.rng.Intn(40)-20)))
	case 4:
		return fmtFloat(math.Float64frombits(uint64(g.rng.Intn(1 << 20)))) // subnormal
	case 5:
		return strconv.Itoa(g.rng.Intn(1 << 30))
	default:
		return fmtFloat(g.rng.NormFloat64() * 1000)
	}
}

// ioFrame: a frame for the writer properties; names and strings from the given pool
func (g *Gen) ioFrame(n int, pool []string, weirdNames bool, allowInf bool) Step {
	st := Step{Op: "New", Recv: -1, HasOrder: true}
	kinds := g.subset([]string{"int", "float", "bool", "string", "string2", "enum", "denum"}, 6)
	used := map[string]bool{}
	for i, k := range kinds {
		name := string(rune('A' + i))
		if weirdNames && g.rng.Intn(2) == 0 {
			name = pool[g.rng.Intn(len(pool))] + string(rune('a'+i))
			if name[0] == '$' || name[0] == '\'' || name[0] == '"' {
				name = "n" + name
			}
		}
		if used[name] {
			name += strconv.Itoa(i)
		}
		used[name] = true
		d := ColData{Name: toBS(name)}
		switch k {
		case "int":
			d.Kind, d.Ints = "int", g.intVals(n, 14)
		case "float":
			d.Kind = "float"
			for j := 0; j < n; j++ {
				f := floatVariety(g)
				if !allowInf && math.IsInf(parseFloat(f), 0) {
					f = "1"
				}
				d.Floats = append(d.Floats, f)
			}
		case "bool":
			d.Kind, d.Bools = "bool", g.boolVals(n)
		case "string", "string2", "denum":
			d.Kind = "string"
			nullPct := []int{0, 15, 60}[g.rng.Intn(3)]
			for j := 0; j < n; j++ {
				if g.rng.Intn(100) < nullPct {
					d.Strs = append(d.Strs, nil)
				} else {
					d.Strs = append(d.Strs, bsp(pool[g.rng.Intn(len(pool))]))
				}
			}
			if k == "denum" {
				st.HasEnums = true
				st.Enums = append(st.Enums, EnumDecl{Name: toBS(name), Vals: nil})
			}
		case "enum":
			d.Kind = "string"
			for j := 0; j < n; j++ {
				if g.rng.Intn(6) == 0 {
					d.Strs = append(d.Strs, nil)
				} else {
					d.Strs = append(d.Strs, bsp(enumTable[g.rng.Intn(len(enumTable))]))
				}
			}
			st.HasEnums = true
			st.Enums = append(st.Enums, EnumDecl{Name: toBS(name), Vals: bsList(enumTable)})
		}
		st.Data = append(st.Data, d)
		st.ColOrder = append(st.ColOrder, toBS(name))
	}
	return st
}

// declared types (and enum values) of a frame, as C13 prescribes for reading back
func (g *Gen) declaredConf(f int, declEnums []EnumDecl) *CsvConf {
	s := schemaOf(g.frame(f))
	c := &CsvConf{HasTypes: true}
	for i, n := range s.names {
		if s.types[i] == "Undefined" {
			continue
		}
		c.Types = append(c.Types, TypeDecl{Name: toBS(n), Typ: s.types[i]})
		if s.types[i] == "enum" {
			for _, e := range declEnums {
				if e.Name.String() == n && e.Vals != nil {
					c.HasEnumVals = true
					c.EnumVals = append(c.EnumVals, e)
				}
			}
		}
	}
	return c
}

func (g *Gen) readSchedule(docLen int) []int {
	switch g.rng.Intn(6) {
	case 0:
		return nil // as much as the buffer takes
	case 1:
		return []int{1}
	case 2:
		return []int{1 + g.rng.Intn(7)}
	case 3:
		r := []int{}
		for k := 0; k < 8; k++ {
			r = append(r, 1+g.rng.Intn(2000))
		}
		return r
	case 4:
		return []int{1023, 1, 1, 1024, 2, 2047}
	default:
		r := []int{}
		for k := 0; k < 5; k++ {
			r = append(r, 1+g.rng.Intn(40))
		}
		return r
	}
}

// firstCellsAndHeaderLikeRows: what the very first bytes of the output are (a cell or a column name starting
// with the bytes of a byte order mark), and rows whose cells are spelled like the column names
func (g *Gen) firstCellsAndHeaderLikeRows() {
	bom := "\xef\xbb\xbf"
	for _, tc := range []struct {
		names []string
		s0    []string
		ints  []int64
	}{{[]string{"s", "n"}, []string{bom + "x", "y", bom}, []int64{1, 2, 3}}, {[]string{bom + "s", "n"}, []string{"a", "b", "c"}, []int64{1, 2, 3}},
		{[]string{"a", "7"}, []string{"x", "a", "a"}, []int64{7, 7, 8}}, {[]string{"a", "7"}, []string{"a", "a", "z"}, []int64{7, 7, 7}}} {
		for _, nohdr := range []bool{false, true} {
			g.begin("first cells and header-like rows")
			strs := make([]*BS, len(tc.s0))
			for i, v := range tc.s0 {
				strs[i] = bsp(v)
			}
			f := g.do(Step{Op: "New", Recv: -1, HasOrder: true, ColOrder: bsList(tc.names),
				Data: []ColData{{Name: toBS(tc.names[0]), Kind: "string", Strs: strs}, {Name: toBS(tc.names[1]), Kind: "int", Ints: tc.ints}}})
			if g.frame(f).Err == nil {
				g.do(Step{Op: "ToCSV", Recv: f, Csv: &CsvConf{NoHeaderWrite: nohdr}})
				conf := &CsvConf{NoHeaderWrite: nohdr, HasTypes: true, Types: []TypeDecl{{Name: toBS(tc.names[0]), Typ: "string"}, {Name: toBS(tc.names[1]), Typ: "int"}}}
				if nohdr {
					conf.Headers = bsList(tc.names)
				}
				g.do(Step{Op: "ReadCSV", Other: f + 1, Csv: conf})
			}
			g.end()
		}
	}
}

func genC13(g *Gen) {
	g.firstCellsAndHeaderLikeRows()
	g.sizeSweep("csv")
	g.longSweep("csv")
	g.enumSeparators()
	g.arrangedFrames("csv arranged", func(f int) {
		g.do(Step{Op: "ToCSV", Recv: f})
		g.do(Step{Op: "ToCSV", Recv: f, Csv: &CsvConf{WriteCols: bsList([]string{"P", "S", "I", "F", "B", "E", "X"})}})
	})
	sizes := []int{0, 1, 2, 3, 6, 12, 30, 90}
	if g.thorough() {
		sizes = append(sizes, 300, 1200)
	}
	for rep := 0; rep < g.pick(70, 1500); rep++ {
		n := sizes[g.rng.Intn(len(sizes))]
		g.begin("csv round trip")
		st := g.ioFrame(n, csvNasty, false, true)
		f := g.do(st)
		if g.frame(f).Err != nil {
			g.end()
			continue
		}
		if g.rng.Intn(2) == 0 {
			f = g.derive(f)
		}
		s := schemaOf(g.frame(f))
		// the writer against the grammar, with every writer option
		wc := &CsvConf{NoHeaderWrite: g.rng.Intn(3) == 0}
		if g.rng.Intn(3) == 0 {
			wc.WriteCols = bsList(g.perm(s.names))
			if g.rng.Intn(6) == 0 {
				wc.WriteCols = append(wc.WriteCols, toBS("nosuch"))
			}
		}
		g.do(Step{Op: "ToCSV", Recv: f, Csv: wc})
		// the round trip, both EmptyNull settings, with and without header, any fragmentation
		for _, en := range []bool{false, true} {
			rc := g.declaredConf(f, st.Enums)
			rc.EmptyNull = en
			if g.rng.Intn(3) == 0 {
				rc.NoHeaderWrite = true
				rc.Headers = bsList(s.names)
			}
			rc.EOFWithData = g.rng.Intn(2) == 0
			g.do(Step{Op: "ReadCSV", Other: f + 1, Csv: rc, Reads: g.readSchedule(0)})
		}
		g.end()
	}
}

func genC14(g *Gen) {
	g.sizeSweep("json")
	g.longSweep("json")
	g.arrangedFrames("json arranged", func(f int) {
		g.do(Step{Op: "ToJSON", Recv: f})
		nn := g.do(Step{Op: "Drop", Recv: f, Cols: bsList([]string{"F"})}) // NaN has no JSON form to return from
		g.do(Step{Op: "ReadJSON", Other: nn + 1, Reads: g.readSchedule(0)})
	})
	sizes := []int{0, 1, 2, 3, 6, 12, 30}
	if g.thorough() {
		sizes = append(sizes, 100, 300)
	}
	for rep := 0; rep < g.pick(80, 2000); rep++ {
		n := sizes[g.rng.Intn(len(sizes))]
		g.begin("json")
		f := g.do(g.ioFrame(n, jsonNasty, true, false))
		if g.frame(f).Err != nil {
			g.end()
			continue
		}
		if g.rng.Intn(2) == 0 {
			f = g.derive(f)
		}
		g.do(Step{Op: "ToJSON", Recv: f})
		g.do(Step{Op: "ReadJSON", Other: f + 1, Reads: g.readSchedule(0)})
		g.end()
	}
	// float columns from the structured binary64 sample of C16 (finite values): written and read back
	fs := []float64{}
	for _, f := range g.c16Floats() {
		if !math.IsInf(f, 0) {
			fs = append(fs, f)
		}
	}
	g.rng.Shuffle(len(fs), func(i, j int) { fs[i], fs[j] = fs[j], fs[i] })
	if !g.thorough() && len(fs) > 3000 {
		fs = fs[:3000]
	}
	for i := 0; i < len(fs); i += 50 {
		j := i + 50
		if j > len(fs) {
			j = len(fs)
		}
		txt := make([]string, j-i)
		for k, f := range fs[i:j] {
			txt[k] = fmtFloat(f)
		}
		g.begin("json floats")
		f := g.do(Step{Op: "New", Recv: -1, HasOrder: true, ColOrder: bsList([]string{"F"}), Data: []ColData{{Name: toBS("F"), Kind: "float", Floats: txt}}})
		g.do(Step{Op: "ToJSON", Recv: f})
		g.do(Step{Op: "ReadJSON", Other: f + 1, Reads: g.readSchedule(0)})
		g.end()
	}
	// neighbouring cells that are equal under == but not identical (both zeros), runs of equal values, NaN runs
	for _, seq := range [][]string{{"0", "-0"}, {"-0", "0"}, {"0", "-0", "-0", "0", "0"}, {"1.5", "1.5", "-1.5", "1.5"}, {"NaN", "NaN", "0", "NaN", "-0"}, {"-0"}, {"1e300", "1e300", "1e-300"}} {
		g.begin("json neighbours")
		ints := make([]int64, len(seq))
		for i := range ints {
			ints[i] = int64(len(seq) - i)
		}
		f := g.do(Step{Op: "New", Recv: -1, HasOrder: true, ColOrder: bsList([]string{"F", "P"}), Data: []ColData{{Name: toBS("F"), Kind: "float", Floats: seq}, {Name: toBS("P"), Kind: "int", Ints: ints}}})
		g.do(Step{Op: "ToJSON", Recv: f})
		g.do(Step{Op: "ToCSV", Recv: f})
		srt := g.do(Step{Op: "Sort", Recv: f, Orders: []Order{{Col: toBS("P")}}})
		g.do(Step{Op: "ToJSON", Recv: srt})
		g.do(Step{Op: "ToCSV", Recv: srt})
		g.end()
	}
	// columns that got their name from an aggregation (As), a copy, a row-number step
	for rep := 0; rep < g.pick(6, 60); rep++ {
		g.begin("json renamed columns")
		f := g.do(g.stdNew(2+g.rng.Intn(6), "ABFS", 4))
		g.do(Step{Op: "GroupBy", Recv: f, Cols: bsList([]string{"A"})})
		a := g.do(Step{Op: "Aggregate", Recv: len(g.x.groupers) - 1, Aggs: []Agg{{Fn: FnRef{K: "builtin", Sym: "sum"}, Col: toBS("B"), As: toBS("total")},
			{Fn: FnRef{K: "builtin", Sym: "max"}, Col: toBS("B"), As: toBS("biggest")}, {Fn: FnRef{K: "builtin", Sym: "count"}, Col: toBS("F")}}})
		for _, x := range []int{a, g.do(Step{Op: "Copy", Recv: f, Dst: toBS("copy"), Src: toBS("S")}), g.do(Step{Op: "WithRowNums", Recv: f, Dst: toBS("B")})} {
			if g.frame(x).Err == nil {
				g.do(Step{Op: "ToJSON", Recv: x})
				g.do(Step{Op: "ToCSV", Recv: x})
				g.do(Step{Op: "String", Recv: x})
			}
		}
		g.end()
	}
	// hand-written documents for ReadJSON alone
	docs := []string{`[]`, `[{"a":1,"b":"x"},{"a":2.5,"b":null}]`, `[{"a":true},{"a":false}]`, `[{"a":1},{"a":"x"}]`, `[{"a":1},{"b":2}]`, `[{"a":null},{"a":"s"}]`,
		`{"a":[1,2]}`, `[{"a":1}`, `[{"a":1e3,"b":-0.0,"c":"é𝄞"}]`, `[{"b":1,"a":2}]`}
	for _, d := range docs {
		g.begin("readjson doc")
		g.do(Step{Op: "ReadJSON", Recv: -1, Doc: toBS(d)})
		g.do(Step{Op: "ReadJSON", Recv: -1, Doc: toBS(d), HasOrder: true, ColOrder: bsList([]string{"b", "a"})})
		g.end()
	}
	g.jsonEveryByte()
}

// ---------------------------------------------------------------- C12

// renderCSV writes a cell matrix as RFC 4180 text with random but legal choices: quoting, LF / CRLF
// row ends, final line break or not.
func (g *Gen) renderCSV(rows [][]string, delim byte) []byte {
	out := []byte{}
	crlf := g.rng.Intn(3) == 0
	for i, row := range rows {
		for j, cell := range row {
			if j > 0 {
				out = append(out, delim)
			}
			must := false
			for k := 0; k < len(cell); k++ {
				if cell[k] == delim || cell[k] == '"' || cell[k] == '\n' || cell[k] == '\r' {
					must = true
				}
			}
			if must || g.rng.Intn(4) == 0 || (cell == "" && len(row) == 1 && g.rng.Intn(2) == 0) {
				out = append(out, '"')
				for k := 0; k < len(cell); k++ {
					if cell[k] == '"' {
						out = append(out, '"')
					}
					out = append(out, cell[k])
				}
				out = append(out, '"')
			} else {
				out = append(out, cell...)
			}
		}
		last := i == len(rows)-1
		if !last || g.rng.Intn(3) != 0 {
			if crlf {
				out = append(out, '\r')
			}
			out = append(out, '\n')
		}
	}
	return out
}

var csvCells = []string{"", "", "a", "b", "ab", "1", "2", "-3", "1.5", "NaN", "true", "false", "x y", ",", "\"", "\"\"", "\n", "a\nb", "a\r\nb", "é", "\xff", " ", "0", "007", "1e3", "+5", "T", "inf"}

func (g *Gen) csvCell(maxLen int) string {
	switch g.rng.Intn(12) {
	case 0:
		// long field crossing the scan buffer's capacities (1024, 2049, 4099)
		base := []int{1020, 1024, 1025, 2047, 2049, 2050, 4098, 4100, 300, 5000}[g.rng.Intn(10)] + g.rng.Intn(7) - 3
		if base > maxLen {
			base = maxLen
		}
		b := make([]byte, base)
		for i := range b {
			b[i] = "abcdefgh,\"\n x"[g.rng.Intn(13)]
		}
		return string(b)
	default:
		return csvCells[g.rng.Intn(len(csvCells))]
	}
}

// sameConfTwice: one configuration (types, enum values, headers) used for several documents in a row
func (g *Gen) sameConfTwice() {
	docs := []string{"d,n\nmon,1\ntue,2\nwed,3\n", "d,n\nwed,1\nmon,2\n", "d,n\ntue,5\nsun,6\n", "d,n\nmon,1\ntue,2\nwed,3\n"}
	confs := []*CsvConf{
		{HasTypes: true, Types: []TypeDecl{{Name: toBS("d"), Typ: "enum"}}, HasEnumVals: true, EnumVals: []EnumDecl{{Name: toBS("d"), Vals: bsList([]string{"wed", "tue", "mon"})}}},
		{HasTypes: true, Types: []TypeDecl{{Name: toBS("d"), Typ: "enum"}, {Name: toBS("n"), Typ: "float"}}},
		{Headers: bsList([]string{"x", "y"}), HasTypes: true, Types: []TypeDecl{{Name: toBS("x"), Typ: "string"}}},
		{EmptyNull: true, HasTypes: true, Types: []TypeDecl{{Name: toBS("n"), Typ: "string"}}, RenameDup: true},
	}
	for _, c := range confs {
		g.begin("same configuration")
		for _, d := range docs {
			f := g.do(Step{Op: "ReadCSV", Recv: -1, Doc: toBS(d), Csv: c})
			if g.frame(f).Err == nil && c.HasEnumVals {
				g.do(Step{Op: "Sort", Recv: f, Orders: []Order{{Col: toBS("d")}}})
			}
		}
		g.end()
	}
}

func genC12(g *Gen) {
	g.sameConfTwice()
	// delimiters that are not ASCII, next to bytes that would form a UTF-8 sequence with them; header names that
	// collide with the names given to renamed duplicates
	for _, tc := range []struct {
		doc   string
		delim int
		ren   bool
	}{{"a\xa7b\n\xc3\xa71\nx\xc3\xa7y\n", 0xa7, false}, {"a\xc3b\n1\xc3\xa7\n\xa7\xc32\n", 0xc3, false}, {"a\xffb\nx\xff\xff\n", 0xff, false},
		{"a,a,a0\n1,2,3\n", ',', true}, {"a0,a,a\n1,2,3\n", ',', true}, {"a,a1,a,a\nx,y,z,w\n", ',', true}, {"b,b0,b,b00,b\n1,2,3,4,5\n", ',', true}} {
		g.begin("delimiters and renamed duplicates")
		for _, reads := range [][]int{nil, {1}, {3, 2}} {
			g.do(Step{Op: "ReadCSV", Recv: -1, Doc: toBS(tc.doc), Csv: &CsvConf{Delim: tc.delim, RenameDup: tc.ren}, Reads: reads})
		}
		if tc.ren {
			g.do(Step{Op: "ReadCSV", Recv: -1, Doc: toBS(tc.doc), Csv: &CsvConf{RenameDup: true, HasTypes: true, Types: []TypeDecl{{Name: toBS("a0"), Typ: "string"}, {Name: toBS("a1"), Typ: "string"}}}})
		}
		g.end()
	}
	// cells at the limits of the column types' ranges: type inference and explicit types
	for _, cell := range []string{"9223372036854775807", "9223372036854775808", "-9223372036854775808", "-9223372036854775809", "9999999999999999999",
		"99999999999999999999", "+5", "007", "1e3", "1_000", "0x10", "-0", "1.", ".5", "NaN", "Inf", "true", "TRUE", "T", "1", ""} {
		g.begin("limit cells")
		doc := "a,b\n1,x\n" + cell + ",y\n"
		g.do(Step{Op: "ReadCSV", Recv: -1, Doc: toBS(doc), Csv: &CsvConf{}})
		for _, t := range []string{"int", "float", "bool", "string"} {
			g.do(Step{Op: "ReadCSV", Recv: -1, Doc: toBS(doc), Csv: &CsvConf{HasTypes: true, Types: []TypeDecl{{Name: toBS("a"), Typ: t}}}})
		}
		g.end()
	}
	for rep := 0; rep < g.pick(140, 3000); rep++ {
		nc := 1 + g.rng.Intn(4)
		nr := []int{0, 1, 2, 3, 5, 9, 20}[g.rng.Intn(7)]
		if g.thorough() && g.rng.Intn(60) == 0 {
			nr = 1001 + g.rng.Intn(50)
		}
		maxLen := 6000
		if nr > 100 {
			maxLen = 8
		}
		delim := byte(',')
		if g.rng.Intn(5) == 0 {
			delim = []byte{'\t', ';', '|', ' ', 'x', 0}[g.rng.Intn(6)]
		}
		headerNames := []string{"A", "B", "C", "D", "", "A", "col", "B"}
		rows := [][]string{}
		hdr := []string{}
		for j := 0; j < nc; j++ {
			hdr = append(hdr, headerNames[g.rng.Intn(g.pick(4, len(headerNames)))])
		}
		conf := &CsvConf{Delim: int(delim), EmptyNull: g.rng.Intn(2) == 0, IgnoreEmpty: g.rng.Intn(2) == 0, EOFWithData: g.rng.Intn(2) == 0}
		if g.rng.Intn(5) == 0 {
			conf.Headers = bsList(hdr) // no header row in the document
		} else {
			rows = append(rows, hdr)
		}
		conf.RenameDup = g.rng.Intn(2) == 0
		if g.rng.Intn(2) == 0 {
			conf.MissingAlias = toBS("M")
		}
		// a column is homogeneous with some probability so that type inference has something to infer
		colKind := make([]int, nc)
		for j := range colKind {
			colKind[j] = g.rng.Intn(6)
		}
		for i := 0; i < nr; i++ {
			row := []string{}
			for j := 0; j < nc; j++ {
				switch colKind[j] {
				case 0:
					row = append(row, strconv.Itoa(g.rng.Intn(200)-100))
				case 1:
					row = append(row, []string{"1.5", "", "2", "-0.25", "NaN", "1e3"}[g.rng.Intn(6)])
				case 2:
					row = append(row, []string{"true", "false", "1", "0", "T", "F"}[g.rng.Intn(6)])
				case 3:
					row = append(row, enumTable[g.rng.Intn(len(enumTable))])
				default:
					row = append(row, g.csvCell(maxLen))
				}
			}
			if g.rng.Intn(25) == 0 && nc > 1 {
				row = row[:len(row)-1] // wrong number of columns
			}
			if g.rng.Intn(15) == 0 {
				row = []string{""} // an empty line
			}
			rows = append(rows, row)
		}
		for j := 0; j < nc; j++ {
			if g.rng.Intn(3) == 0 {
				conf.HasTypes = true
				typ := []string{"int", "float", "bool", "string", "enum", "enum", "nosuchtype"}[g.rng.Intn(g.pick(6, 7))]
				if colKind[j] == 3 && g.rng.Intn(2) == 0 {
					typ = "enum"
				}
				conf.Types = append(conf.Types, TypeDecl{Name: toBS(hdr[j]), Typ: typ})
				if typ == "enum" && g.rng.Intn(2) == 0 {
					conf.HasEnumVals = true
					conf.EnumVals = append(conf.EnumVals, EnumDecl{Name: toBS(hdr[j]), Vals: bsList(enumTable)})
				}
			}
		}
		if g.rng.Intn(30) == 0 {
			conf.HasEnumVals = true
			conf.EnumVals = append(conf.EnumVals, EnumDecl{Name: toBS("nosuch"), Vals: bsList(enumTable)})
		}
		if nr > 1000 {
			conf.RowCountHint = 2001 + g.rng.Intn(3000)
		}
		doc := g.renderCSV(rows, delim)
		g.begin("readcsv")
		// the same document under several fragmentations: the result must not depend on them
		for k := 0; k < g.pick(3, 4); k++ {
			c := *conf
			c.EOFWithData = k%2 == 0
			g.do(Step{Op: "ReadCSV", Recv: -1, Doc: bytesBS(doc), Csv: &c, Reads: g.readSchedule(len(doc))})
		}
		g.end()
	}
	// RowCountHint above 2000 with more than 1000 rows: the reader re-allocates its column buffers from an
	// estimate after 1000 rows; columns that outgrow the estimate (cells getting longer, a running id)
	hints := []int{2001}
	if g.thorough() {
		hints = []int{0, 2001, 1100, 2200, 5000}
	}
	for _, hint := range hints {
		rows := [][]string{{"id", "txt", "n"}}
		nrows := 1100
		for i := 0; i < nrows; i++ {
			txt := "s"
			if i > 1010 {
				txt = "a much longer cell in the later part of the file " + itoa(i)
			}
			rows = append(rows, []string{itoa(i * 7), txt, itoa(i % 5)})
		}
		doc := g.renderCSV(rows, ',')
		g.begin("readcsv rowcounthint")
		g.do(Step{Op: "ReadCSV", Recv: -1, Doc: bytesBS(doc), Csv: &CsvConf{RowCountHint: hint}, Reads: g.readSchedule(len(doc))})
		g.end()
	}
	// read boundaries swept across every offset around the buffer capacities for one tricky document
	cell := make([]byte, 1030)
	for i := range cell {
		cell[i] = "ab\"\n,"[i%5]
	}
	rows := [][]string{{"H1", "H2"}, {string(cell), "x\r\ny"}, {"\"", ""}}
	doc := g.renderCSV(rows, ',')
	for off := 1010; off <= 1040 && off < len(doc); off += g.pick(3, 1) {
		g.begin("readcsv sweep")
		g.do(Step{Op: "ReadCSV", Recv: -1, Doc: bytesBS(doc), Csv: &CsvConf{}, Reads: []int{off, 1, 1, 1, 5000}})
		g.end()
	}
}

// ---------------------------------------------------------------- C09

func genC09(g *Gen) {
	// frames with typeless zero-row columns (a header-only CSV) are frames too
	for _, doc := range []string{"A,B\n", "A\n", "A,B"} {
		g.begin("typeless columns")
		f := g.do(Step{Op: "ReadCSV", Recv: -1, Doc: toBS(doc), Csv: &CsvConf{}})
		g.do(Step{Op: "Equals", Recv: f, Other: f})
		f2 := g.do(Step{Op: "ReadCSV", Recv: -1, Doc: toBS(doc), Csv: &CsvConf{}})
		g.do(Step{Op: "Equals", Recv: f, Other: f2})
		g.do(Step{Op: "String", Recv: f})
		g.do(Step{Op: "ToCSV", Recv: f})
		g.do(Step{Op: "ToJSON", Recv: f})
		g.do(Step{Op: "Select", Recv: f, Cols: bsList([]string{"A"})})
		g.end()
	}
	g.enumUpperFamilies()
	g.sizeSweep("json")
	g.sizeSweep("csv")
	for rep := 0; rep < g.pick(20, 200); rep++ {
		g.begin("sibling column additions")
		f := g.do(g.stdNew([]int{1, 3, 6}[g.rng.Intn(3)], g.oneOf([]string{"AB", "ABF", "SAT", "EXAF"}), 8))
		g.siblingAdds(f)
		for i := f; i < len(g.x.frames); i++ {
			if g.frame(i).Err == nil {
				g.do(Step{Op: "ToCSV", Recv: i})
				g.do(Step{Op: "ToJSON", Recv: i})
				g.do(Step{Op: "String", Recv: i})
			}
		}
		g.end()
	}
	g.indexArrangements()
	g.arrangedFrames("observers arranged", func(f int) {
		g.do(Step{Op: "String", Recv: f})
		g.do(Step{Op: "ToCSV", Recv: f})
		g.do(Step{Op: "ToJSON", Recv: f})
		for _, c := range []string{"I", "F", "B", "S", "E", "X"} {
			g.do(Step{Op: "View", Recv: f, Dst: toBS(c)})
		}
		rb := g.do(Step{Op: "Rebuild", Recv: f})
		g.do(Step{Op: "Equals", Recv: f, Other: rb})
		g.do(Step{Op: "Equals", Recv: rb, Other: f})
		// a key with ties: the order of tied rows may not depend on the storage layout (enum columns left
		// out: a rebuilt frame derives its enum order anew)
		pa := g.do(Step{Op: "Select", Recv: f, Cols: bsList([]string{"I", "F", "B", "S", "P"})})
		pb := g.do(Step{Op: "Select", Recv: rb, Cols: bsList([]string{"I", "F", "B", "S", "P"})})
		for _, rev := range []bool{false, true} {
			sa := g.do(Step{Op: "Sort", Recv: pa, Orders: []Order{{Col: toBS("B"), Rev: rev}}})
			sb := g.do(Step{Op: "Sort", Recv: pb, Orders: []Order{{Col: toBS("B"), Rev: rev}}})
			g.do(Step{Op: "Equals", Recv: sa, Other: sb, Opts: []int{78}})
		}
		for _, c := range []string{"I", "F", "B", "S", "E"} { // column by column: each type has its own Equals
			a := g.do(Step{Op: "Select", Recv: f, Cols: bsList([]string{c})})
			b := g.do(Step{Op: "Select", Recv: rb, Cols: bsList([]string{c})})
			g.do(Step{Op: "Equals", Recv: a, Other: b})
			g.do(Step{Op: "Equals", Recv: b, Other: a})
		}
		g.do(Step{Op: "SliceObs", Recv: -1, A: 1})
		g.do(Step{Op: "Select", Recv: f, Cols: bsList([]string{"F", "I", "B"})})
		g.do(Step{Op: "SliceObs", Recv: -1, A: 0})
		// every column in another order, then an existing column replaced: all observers describe the same frame
		sel := g.do(Step{Op: "Select", Recv: f, Cols: bsList([]string{"P", "X", "E", "S", "B", "F", "I"})})
		for _, dst := range []string{"I", "S", "P"} {
			cp := g.do(Step{Op: "Copy", Recv: sel, Dst: toBS(dst), Src: toBS(map[string]string{"I": "P", "S": "X", "P": "I"}[dst])})
			g.do(Step{Op: "String", Recv: cp})
			g.do(Step{Op: "ToCSV", Recv: cp})
			g.do(Step{Op: "ToJSON", Recv: cp})
			g.do(Step{Op: "Equals", Recv: cp, Other: g.do(Step{Op: "Rebuild", Recv: cp})})
		}
		dr := g.do(Step{Op: "Drop", Recv: f, Cols: bsList([]string{"F"})})
		cp := g.do(Step{Op: "Copy", Recv: dr, Dst: toBS("S"), Src: toBS("X")})
		g.do(Step{Op: "String", Recv: cp})
		g.do(Step{Op: "ToJSON", Recv: cp})
	})
	colsets := []string{"ABF", "AFTSE", "SREX", "FS", "ATE", "FGX"}
	sizes := []int{0, 1, 2, 3, 5, 8, 13, 51, 60}
	for rep := 0; rep < g.pick(40, 900); rep++ {
		n := sizes[g.rng.Intn(len(sizes))]
		g.begin("observers")
		st := g.stdNew(n, colsets[g.rng.Intn(len(colsets))], 12)
		// wide cells and long names exercise the width / truncation rule of String()
		if g.rng.Intn(3) == 0 && len(st.Data) > 0 {
			st.Data[0].Name = toBS("a_rather_long_column_name")
			st.ColOrder[0] = st.Data[0].Name
			for i := range st.Enums {
				if i == 0 && st.Enums[i].Name.String() == "A" {
					st.Enums[i].Name = st.Data[0].Name
				}
			}
		}
		f := g.do(st)
		if g.frame(f).Err != nil {
			g.end()
			continue
		}
		for k := g.rng.Intn(4); k > 0; k-- {
			g.historyStep()
		}
		nf := len(g.x.frames)
		// every member through every observer
		for i := 0; i < nf; i++ {
			if g.frame(i).Err != nil {
				continue
			}
			g.do(Step{Op: "String", Recv: i})
			g.do(Step{Op: "ToCSV", Recv: i})
			g.do(Step{Op: "ToJSON", Recv: i})
			if s := schemaOf(g.frame(i)); len(s.names) > 0 {
				g.do(Step{Op: "TypedView", Recv: i, Dst: toBS(g.oneOf(append([]string{"nosuch"}, s.names...))), Fl: g.oneOf([]string{"int", "float", "bool", "string", "enum"})})
				g.do(Step{Op: "View", Recv: i, Dst: toBS(g.oneOf(s.names))})
			}
		}
		// views through Slice() instead of ItemAt: the following results are observed that way
		g.do(Step{Op: "SliceObs", Recv: -1, A: 1})
		for k := 0; k < 3; k++ {
			g.historyStep()
		}
		g.do(Step{Op: "SliceObs", Recv: -1, A: 0})
		// Equals on pairs, both directions; a rebuilt frame behaves like the original
		nf = len(g.x.frames)
		for k := 0; k < 4; k++ {
			a, b := g.rng.Intn(nf), g.rng.Intn(nf)
			g.do(Step{Op: "Equals", Recv: a, Other: b})
			g.do(Step{Op: "Equals", Recv: b, Other: a})
		}
		for k := 0; k < 2; k++ {
			a := g.rng.Intn(nf)
			if g.frame(a).Err != nil {
				continue
			}
			r := g.do(Step{Op: "Rebuild", Recv: a})
			g.do(Step{Op: "Equals", Recv: a, Other: r})
			g.do(Step{Op: "Equals", Recv: r, Other: a})
			g.do(Step{Op: "Equals", Recv: a, Other: a})
			s := schemaOf(g.frame(a))
			if len(s.names) == 0 {
				continue
			}
			// the same operation on both
			var op Step
			switch g.rng.Intn(4) {
			case 0:
				cl := g.simpleLeaf(s)
				op = Step{Op: "Filter", Clause: &cl}
			case 1:
				op = Step{Op: "Sort", Orders: []Order{{Col: toBS(g.oneOf(s.names))}, {Col: toBS(g.oneOf(s.names)), Rev: true}}}
			case 2:
				op = Step{Op: "Select", Cols: bsList(g.subset(s.names, 3))}
			default:
				op = Step{Op: "Apply", Instrs: g.randomInstrs(s, 2, false)}
			}
			op.Recv = a
			ra := g.do(op)
			op.Recv = r
			rb := g.do(op)
			// the law "Equal frames give Equal results" is demanded outright where the rebuilt frame carries the
			// same hidden state as the original, i.e. where no enum column (value table, strictness) is involved
			// and both calls succeeded; elsewhere the specification computes what Equals must answer
			var law []int
			if len(s.colsOfType("enum")) == 0 && g.frame(ra).Err == nil && g.frame(rb).Err == nil {
				law = []int{78}
			}
			g.do(Step{Op: "Equals", Recv: ra, Other: rb, Opts: law})
			g.do(Step{Op: "Equals", Recv: rb, Other: ra, Opts: law})
		}
		g.end()
	}
}

// enumUpperFamilies: the built-in ToUpper on enum columns rewrites the value table; with case variants
// among the values two codes come to mean the same string. Frames that show the same strings through
// different codes are Equal, print alike, and so do their slices and rebuilt copies (C09).
func (g *Gen) enumUpperFamilies() {
	pool := []string{"a", "A", "b", "B", "ab", "aB", "Ab", "é", "É", ""}
	swap := func(s string) string {
		r := []rune(s)
		for i, c := range r {
			switch {
			case c >= 'a' && c <= 'z':
				r[i] = c - 32
			case c >= 'A' && c <= 'Z':
				r[i] = c + 32
			case c == 'é':
				r[i] = 'É'
			case c == 'É':
				r[i] = 'é'
			}
		}
		return string(r)
	}
	for rep := 0; rep < g.pick(40, 600); rep++ {
		n := 1 + g.rng.Intn(6)
		k := 2 + g.rng.Intn(4)
		vals := g.subset(pool, k)
		declared := g.rng.Intn(4) != 0
		var decl []BS
		if declared {
			// both case variants of everything used, in a random order
			set := map[string]bool{}
			for _, v := range vals {
				set[v], set[swap(v)] = true, true
			}
			all := []string{}
			for _, p := range pool {
				if set[p] {
					all = append(all, p)
				}
			}
			g.rng.Shuffle(len(all), func(i, j int) { all[i], all[j] = all[j], all[i] })
			decl = bsList(all)
		}
		e1, e2 := make([]*BS, n), make([]*BS, n)
		ints := make([]int64, n)
		for i := 0; i < n; i++ {
			ints[i] = int64(g.rng.Intn(3))
			if g.rng.Intn(8) == 0 {
				continue
			}
			v := vals[g.rng.Intn(len(vals))]
			e1[i] = bsp(v)
			if g.rng.Intn(2) == 0 {
				e2[i] = bsp(swap(v))
			} else {
				e2[i] = bsp(v)
			}
		}
		mk := func(e []*BS) Step {
			return Step{Op: "New", Recv: -1, HasOrder: true, ColOrder: bsList([]string{"A", "E"}), HasEnums: true,
				Enums: []EnumDecl{{Name: toBS("E"), Vals: decl}},
				Data:  []ColData{{Name: toBS("A"), Kind: "int", Ints: ints}, {Name: toBS("E"), Kind: "string", Strs: e}}}
		}
		up := func(f int, dst string) int {
			return g.do(Step{Op: "Apply", Recv: f, Instrs: []Instr{{Fn: FnRef{K: "builtin", Sym: "ToUpper"}, Dst: toBS(dst), Src1: toBS("E")}}})
		}
		g.begin("enum upper")
		a0 := g.do(mk(e1))
		b0 := g.do(mk(e2))
		dst := g.oneOf([]string{"E", "E", "U"})
		a1, b1 := up(a0, dst), up(b0, dst)
		g.do(Step{Op: "Equals", Recv: a1, Other: b1})
		g.do(Step{Op: "Equals", Recv: b1, Other: a1})
		g.do(Step{Op: "Equals", Recv: a0, Other: b0})
		members := []int{a1, b1}
		// rows showing the same strings, taken from different places
		for t := 0; t < 3 && n > 1; t++ {
			i, j := g.rng.Intn(n), g.rng.Intn(n)
			si := g.do(Step{Op: "Slice", Recv: a1, A: i, B: i + 1})
			sj := g.do(Step{Op: "Slice", Recv: g.oneOf2(a1, b1), A: j, B: j + 1})
			g.do(Step{Op: "Equals", Recv: si, Other: sj})
			sa := g.do(Step{Op: "Select", Recv: si, Cols: bsList([]string{dst})})
			sb := g.do(Step{Op: "Select", Recv: sj, Cols: bsList([]string{dst})})
			g.do(Step{Op: "Equals", Recv: sa, Other: sb})
			g.do(Step{Op: "Equals", Recv: sb, Other: sa})
		}
		for _, m := range members {
			r := g.do(Step{Op: "Rebuild", Recv: m})
			g.do(Step{Op: "Equals", Recv: m, Other: r})
			g.do(Step{Op: "Equals", Recv: r, Other: m})
			g.do(Step{Op: "Equals", Recv: r, Other: g.oneOf2(a1, b1)})
			g.do(Step{Op: "String", Recv: m})
			g.do(Step{Op: "ToCSV", Recv: m})
			g.do(Step{Op: "ToJSON", Recv: m})
			g.do(Step{Op: "View", Recv: m, Dst: toBS(dst)})
			u2 := up(m, "V") // upper-casing twice changes nothing
			g.do(Step{Op: "Equals", Recv: g.do(Step{Op: "Drop", Recv: u2, Cols: bsList([]string{"V"})}), Other: m})
		}
		// operations that go by the code are not specified on a collapsed table, but must not panic
		g.do(Step{Op: "Sort", Recv: a1, Orders: []Order{{Col: toBS(dst)}}})
		g.do(Step{Op: "Distinct", Recv: b1, Cols: bsList([]string{dst})})
		g.end()
	}
}

func (g *Gen) oneOf2(a, b int) int {
	if g.rng.Intn(2) == 0 {
		return a
	}
	return b
}

func permsOf(n int) [][]int {
	if n == 0 {
		return [][]int{{}}
	}
	r := [][]int{}
	for _, p := range permsOf(n - 1) {
		for pos := 0; pos <= len(p); pos++ {
			q := append(append(append([]int{}, p[:pos]...), n-1), p[pos:]...)
			r = append(r, q)
		}
	}
	return r
}

// indexArrangements: every row arrangement of a small frame (all permutations of 4 rows, a sample of
// those of 5 and 6; all in thorough), optionally of a slice of a larger one, read through ItemAt and
// then through View.Slice(): both show the same cells in frame order (C09).
func (g *Gen) indexArrangements() {
	for _, n := range []int{4, 5, 6} {
		for _, perm := range permsOf(n) {
			if n > 4 && !g.thorough() && g.rng.Intn(n*n-13) != 0 { // 5: 1/12, 6: 1/23
				continue
			}
			for variant := 0; variant < 4; variant++ {
				if n > 4 && variant != g.rng.Intn(4) {
					continue // 4 rows: every variant; above: one at random
				}
				g.begin("index arrangement")
				off := variant % 2 * (1 + g.rng.Intn(2)) // rows cut away in front, so that the physical range does not start at 0 - or none
				tot := off + n + variant/2               // and a row cut away behind - or none
				p := make([]int64, tot)
				fl := make([]string, tot)
				bo := make([]bool, tot)
				for i := range p {
					p[i] = int64(100 + i)
					fl[i] = itoa(i) + ".5"
					bo[i] = g.rng.Intn(2) == 0
				}
				for i, v := range perm {
					p[off+i] = int64(v)
				}
				f := g.do(Step{Op: "New", Recv: -1, HasOrder: true, ColOrder: bsList([]string{"P", "F", "T"}),
					Data: []ColData{{Name: toBS("P"), Kind: "int", Ints: p}, {Name: toBS("F"), Kind: "float", Floats: fl}, {Name: toBS("T"), Kind: "bool", Bools: bo}}})
				if tot != n {
					f = g.do(Step{Op: "Slice", Recv: f, A: off, B: off + n})
				}
				srt := g.do(Step{Op: "Sort", Recv: f, Orders: []Order{{Col: toBS("P"), Rev: g.rng.Intn(4) == 0}}})
				cl := Clause{K: "leaf", Col: toBS("P"), CmpK: "str", Cmp: "<", Arg: &Val{T: "int", I: 50}}
				g.do(Step{Op: "Filter", Recv: srt, Clause: &cl})
				rb := g.do(Step{Op: "Rebuild", Recv: srt})
				g.do(Step{Op: "Equals", Recv: srt, Other: rb})
				g.do(Step{Op: "Equals", Recv: rb, Other: srt})
				g.do(Step{Op: "Equals", Recv: srt, Other: f})
				g.do(Step{Op: "Equals", Recv: f, Other: srt})
				g.do(Step{Op: "SliceObs", Recv: -1, A: 1}) // every member is now read again through Slice()
				for _, c := range []string{"P", "F", "T"} {
					g.do(Step{Op: "View", Recv: srt, Dst: toBS(c)})
				}
				g.do(Step{Op: "Select", Recv: srt, Cols: bsList([]string{"F", "P"})})
				g.do(Step{Op: "Sort", Recv: srt, Orders: []Order{{Col: toBS("F")}}})
				g.do(Step{Op: "SliceObs", Recv: -1, A: 0})
				g.end()
			}
		}
	}
}

// longSweep: the same for much longer outputs (up to ~128 KiB, so that buffer sizes up to 64 KiB are crossed
// at every phase): one 14 000-row frame with tiny records, written for every prefix length. The screen is
// the end of the output and the number of records only; what it selects is judged by the specification.
func (g *Gen) longSweep(format string) {
	const maxN = 14000
	a := make([]int, maxN)
	for i := range a {
		a[i] = i % 10
	}
	base := qframe.New(map[string]interface{}{"a": a})
	forwarded := 0
	var buf bytes.Buffer
	for n := 2000; n <= maxN && forwarded < 3; n++ {
		qf := base.Slice(0, n)
		buf.Reset()
		suspicious := false
		if format == "json" {
			err := qf.ToJSON(&buf)
			b := buf.Bytes()
			suspicious = err != nil || !bytes.HasSuffix(b, []byte("}]")) || !bytes.HasPrefix(b, []byte("[{")) || bytes.Count(b, []byte("},{")) != n-1
		} else {
			err := qf.ToCSV(&buf)
			suspicious = err != nil || bytes.Count(buf.Bytes(), []byte("\n")) != n+1
		}
		if suspicious {
			forwarded++
			ai := make([]int64, n)
			for i := range ai {
				ai[i] = int64(a[i])
			}
			g.begin("long sweep")
			f := g.do(Step{Op: "New", Recv: -1, Data: []ColData{{Name: toBS("a"), Kind: "int", Ints: ai}}})
			if format == "json" {
				g.do(Step{Op: "ToJSON", Recv: f})
			} else {
				g.do(Step{Op: "ToCSV", Recv: f})
			}
			g.end()
		}
	}
}

// sizeSweep: the writers buffer their output; a frame is written for every row count 1..N so that the
// output crosses every internal buffer size at every possible phase. Each output is screened with the
// standard library's decoder (a cheap scan that only SELECTS what is forwarded); a scenario is recorded -
// and judged by the specification like any other - for every row count whose output looks wrong, plus a
// sample of the others.
func (g *Gen) sizeSweep(format string) {
	maxN := g.pick(900, 3000)
	forwarded := 0
	for _, shape := range []int{0, 1} {
		for n := 1; n <= maxN; n++ {
			a := make([]int, n)
			sv := make([]string, n)
			for i := range a {
				a[i] = i * 37 % 1000
				sv[i] = "v" + itoa(i%97)
				if shape == 1 {
					sv[i] += "-padding-padding"
				}
			}
			qf := qframe.New(map[string]interface{}{"A": a, "S": sv}, newqf.ColumnOrder("A", "S"))
			var buf bytes.Buffer
			suspicious := false
			if format == "json" {
				if err := qf.ToJSON(&buf); err != nil || !json.Valid(buf.Bytes()) {
					suspicious = true
				} else {
					var recs []map[string]interface{}
					if json.Unmarshal(buf.Bytes(), &recs) != nil || len(recs) != n {
						suspicious = true
					}
				}
			} else {
				if err := qf.ToCSV(&buf); err != nil || bytes.Count(buf.Bytes(), []byte("\n")) != n+1 {
					suspicious = true
				}
			}
			if (suspicious && forwarded < 12) || n == 1 || n == 97 || n == 211 || n == 416 { // (the unsuspicious ones forwarded stay small: TLC decodes them byte by byte)
				if suspicious {
					forwarded++
				}
				ai := make([]int64, n)
				ss := make([]*BS, n)
				for i := range a {
					ai[i], ss[i] = int64(a[i]), bsp(sv[i])
				}
				g.begin("size sweep")
				f := g.do(Step{Op: "New", Recv: -1, HasOrder: true, ColOrder: bsList([]string{"A", "S"}),
					Data: []ColData{{Name: toBS("A"), Kind: "int", Ints: ai}, {Name: toBS("S"), Kind: "string", Strs: ss}}})
				if format == "json" {
					g.do(Step{Op: "ToJSON", Recv: f})
				} else {
					g.do(Step{Op: "ToCSV", Recv: f})
				}
				g.end()
			}
		}
	}
}

// jsonEveryByte: the escaping rules byte by byte, completely - every byte value 0x00..0xFF as a cell of its own
// and between two letters (string and enum column), and every control byte, quote, backslash, DEL, a lone
// continuation byte and 0xFF inside a column name. Written by ToJSON, read back by ReadJSON.
func (g *Gen) jsonEveryByte() {
	for lo := 0; lo < 256; lo += 64 {
		one, mid := make([]*BS, 64), make([]*BS, 64)
		pos := make([]int64, 64)
		for i := range one {
			b := string([]byte{byte(lo + i)})
			one[i], mid[i], pos[i] = bsp(b), bsp("a"+b+"z"), int64(lo+i)
		}
		g.begin("json every byte")
		f := g.do(Step{Op: "New", Recv: -1, HasOrder: true, ColOrder: bsList([]string{"S", "M", "E", "P"}), HasEnums: true,
			Enums: []EnumDecl{{Name: toBS("E"), Vals: nil}},
			Data: []ColData{{Name: toBS("S"), Kind: "string", Strs: one}, {Name: toBS("M"), Kind: "string", Strs: mid}, {Name: toBS("E"), Kind: "string", Strs: mid},
				{Name: toBS("P"), Kind: "int", Ints: pos}}})
		g.do(Step{Op: "ToJSON", Recv: f})
		g.do(Step{Op: "ReadJSON", Other: f + 1, Reads: g.readSchedule(0)})
		g.end()
	}
	special := []byte{}
	for b := 0; b < 32; b++ {
		special = append(special, byte(b))
	}
	special = append(special, '"', '\\', '/', 0x7f, 0x80, 0xff)
	for i := 0; i < len(special); i += 6 {
		j := i + 6
		if j > len(special) {
			j = len(special)
		}
		st := Step{Op: "New", Recv: -1, HasOrder: true}
		for k, b := range special[i:j] {
			name := "n" + string([]byte{b}) + string(rune('a'+k))
			st.ColOrder = append(st.ColOrder, toBS(name))
			st.Data = append(st.Data, ColData{Name: toBS(name), Kind: "int", Ints: []int64{int64(b), int64(k)}})
		}
		g.begin("json every byte in names")
		f := g.do(st)
		g.do(Step{Op: "ToJSON", Recv: f})
		g.do(Step{Op: "ReadJSON", Other: f + 1, Reads: g.readSchedule(0)})
		g.end()
	}
}
