package main

import "strings"

// ConcModel: a triple (operation kind, operation kind, relation) emitted by spec/Conc.tla, expanded into a
// concurrent batch on real frames: frame t1, frame t2 = relation(t1) sharing storage with it, and four
// goroutines - two per kind, on t1 and on t2 - started together, three repetitions (see exec_conc.go).

func concModelFrame() Step {
	n := 24
	a, p := make([]int64, n), make([]int64, n)
	y := make([]*BS, n)
	f := make([]string, n)
	b := make([]bool, n)
	s, x := make([]*BS, n), make([]*BS, n)
	for i := 0; i < n; i++ {
		a[i], p[i], f[i], b[i] = int64(i%5-1), int64((i*7)%n), itoa(i%4)+".5", i%3 == 0
		s[i], x[i] = bsp([]string{"ab", "Ab", "ba", "", "xaby"}[i%5]), bsp([]string{"lo", "mid", "hi"}[i%3])
		y[i] = bsp("y" + itoa(i%20)) // an enum with more values than fit a small linear scan
	}
	s[4], x[7], f[2] = nil, nil, "NaN"
	return Step{Op: "New", Recv: -1, HasOrder: true, ColOrder: bsList([]string{"A", "F", "B", "S", "X", "P", "Y"}), HasEnums: true,
		Enums: []EnumDecl{{Name: toBS("X"), Vals: nil}, {Name: toBS("Y"), Vals: nil}},
		Data: []ColData{{Name: toBS("A"), Kind: "int", Ints: a}, {Name: toBS("F"), Kind: "float", Floats: f}, {Name: toBS("B"), Kind: "bool", Bools: b},
			{Name: toBS("S"), Kind: "string", Strs: s}, {Name: toBS("X"), Kind: "string", Strs: x}, {Name: toBS("P"), Kind: "int", Ints: p}, {Name: toBS("Y"), Kind: "string", Strs: y}}}
}

func concModelOp(kind string, recv int, tag string) Step {
	leaf := func(col, cmp string, v *Val) *Clause {
		return &Clause{K: "leaf", Col: toBS(col), CmpK: "str", Cmp: cmp, Arg: v}
	}
	switch kind {
	case "FilterLike":
		return Step{Op: "Filter", Recv: recv, Clause: leaf("S", "ilike", &Val{T: "string", S: toBS("%AB%")})}
	case "FilterInt":
		return Step{Op: "Filter", Recv: recv, Clause: leaf("A", ">", &Val{T: "int", I: 0})}
	case "FilterMixed": // an int column against a float column: the int column is promoted for the duration of the filter
		return Step{Op: "Filter", Recv: recv, Clause: leaf("A", []string{"<", ">=", "!="}[len(tag)%3], &Val{T: "col", S: toBS("F")})}
	case "FilterEnum":
		return Step{Op: "Filter", Recv: recv, Clause: leaf("Y", []string{"=", "<", ">="}[len(tag)%3], &Val{T: "string", S: toBS("y7")})}
	case "FilterAnd":
		return Step{Op: "Filter", Recv: recv, Clause: &Clause{K: "and", Subs: []Clause{*leaf("P", ">=", &Val{T: "int", I: 0}), *leaf("A", "<", &Val{T: "int", I: 2})}}}
	case "FilterOr":
		return Step{Op: "Filter", Recv: recv, Clause: &Clause{K: "or", Subs: []Clause{{K: "and", Subs: []Clause{*leaf("A", "<", &Val{T: "int", I: 1})}},
			{K: "not", Subs: []Clause{*leaf("X", "=", &Val{T: "string", S: toBS("mid")})}}}}}
	case "Sort":
		return Step{Op: "Sort", Recv: recv, Orders: []Order{{Col: toBS("A"), Rev: true}, {Col: toBS("P")}}}
	case "Distinct":
		return Step{Op: "Distinct", Recv: recv, Cols: bsList([]string{"A"})}
	case "GroupAgg":
		return Step{Op: "GroupBy", Recv: recv, Cols: bsList([]string{"X"}), Null: true}
	case "ApplyFn":
		return Step{Op: "Apply", Recv: recv, Instrs: []Instr{{Fn: FnRef{K: "fn1", Sym: "negI"}, Dst: toBS("N" + tag), Src1: toBS("A")}}}
	case "ApplyUpper":
		return Step{Op: "Apply", Recv: recv, Instrs: []Instr{{Fn: FnRef{K: "builtin", Sym: "ToUpper"}, Dst: toBS("U" + tag), Src1: toBS("S")}}}
	case "EvalCtx":
		e := Expr{K: "call", Op: "+", Args: []Expr{{K: "call", Op: "neg", Args: []Expr{{K: "col", Name: toBS("A")}}}, {K: "col", Name: toBS("P")}}}
		return Step{Op: "Eval", Recv: recv, Dst: toBS("V" + tag), Expr: &e, Ctx: userCtx}
	case "EvalPlain":
		e := Expr{K: "call", Op: "abs", Args: []Expr{{K: "call", Op: "-", Args: []Expr{{K: "col", Name: toBS("A")}, {K: "col", Name: toBS("P")}}}}}
		return Step{Op: "Eval", Recv: recv, Dst: toBS("W" + tag), Expr: &e}
	case "CopyAdd":
		return Step{Op: "Copy", Recv: recv, Dst: toBS("C" + tag), Src: toBS("S")}
	case "RowNums":
		return Step{Op: "WithRowNums", Recv: recv, Dst: toBS("R" + tag)}
	case "ToCSV":
		return Step{Op: "ToCSV", Recv: recv}
	case "ToJSON":
		return Step{Op: "ToJSON", Recv: recv}
	case "String":
		return Step{Op: "String", Recv: recv}
	case "Equals":
		return Step{Op: "Equals", Recv: recv, Other: recv}
	case "Slice":
		return Step{Op: "Slice", Recv: recv, A: 1, B: 3}
	case "Select":
		return Step{Op: "Select", Recv: recv, Cols: bsList([]string{"S", "A"})}
	case "ViewSlice":
		return Step{Op: "View", Recv: recv, Dst: toBS("A")}
	}
	panic("ConcModel: unknown operation kind " + kind)
}

func (x *Exec) concModel(sc *Scenario, st *Step) {
	parts := strings.Split(st.Fl, ",")
	if len(parts) != 3 {
		panic("ConcModel: expected \"opA,opB,relation\", got " + st.Fl)
	}
	opA, opB, rel := parts[0], parts[1], parts[2]
	steps := []Step{concModelFrame()}
	// t1 is itself the result of adding a column (its header has room to spare)
	steps = append(steps, Step{Op: "WithRowNums", Recv: 0, Dst: toBS("rn")})
	t1 := 1
	var d Step
	switch rel {
	case "same":
		d = Step{Op: "Slice", Recv: t1, A: 0, B: 24} // placeholder member; the batch works on t1 twice
	case "slice":
		d = Step{Op: "Slice", Recv: t1, A: 2, B: 20}
	case "select":
		d = Step{Op: "Select", Recv: t1, Cols: bsList([]string{"P", "S", "X", "A", "F", "B", "rn", "Y"})}
	case "sorted":
		d = Step{Op: "Sort", Recv: t1, Orders: []Order{{Col: toBS("P")}}}
	case "filtered":
		d = Step{Op: "Filter", Recv: t1, Clause: &Clause{K: "leaf", Col: toBS("P"), CmpK: "str", Cmp: "!=", Arg: &Val{T: "int", I: 3}}}
	default: // added
		d = Step{Op: "Copy", Recv: t1, Dst: toBS("S2"), Src: toBS("S")}
	}
	steps = append(steps, d)
	t2 := 2
	if rel == "same" {
		t2 = t1
	}
	steps = append(steps, Step{Op: "Concurrent", Recv: -1, A: 2, B: len(opA)*131 + len(opB)*17 + len(rel),
		Subs: []Step{concModelOp(opA, t1, "a"), concModelOp(opB, t2, "b"), concModelOp(opB, t1, "c"), concModelOp(opA, t2, "d")}})
	for k := range steps {
		x.step = k + 1
		x.runStep(sc, &steps[k])
	}
}
