package main

func init() { generators["C11"] = genC11 }

// one operation of the kinds C11 names, on frame f
func (g *Gen) concOp(f int) Step {
	s := schemaOf(g.frame(f))
	if s.err || len(s.names) == 0 {
		return Step{Op: "String", Recv: f}
	}
	types4 := []string{"int", "float", "bool", "string"}
	strCols := s.colsOfType("string", "enum")
	switch g.rng.Intn(16) {
	case 0, 1:
		cl := g.randomClause(s, 2)
		return Step{Op: "Filter", Recv: f, Clause: &cl}
	case 2:
		if len(strCols) > 0 { // like / ilike: the matcher owns a reusable buffer
			cl := Clause{K: "leaf", Col: toBS(g.oneOf(strCols)), CmpK: "str", Cmp: g.oneOf([]string{"like", "ilike", "ilike"}), Arg: &Val{T: "string", S: toBS(g.oneOf([]string{"%a%", "A%", "%b", "ab", "%é%"}))}}
			return Step{Op: "Filter", Recv: f, Clause: &cl}
		}
		return Step{Op: "Sort", Recv: f, Orders: g.sortOrders(s, 2)}
	case 3, 4:
		return Step{Op: "Sort", Recv: f, Orders: g.sortOrders(s, 2)}
	case 5:
		return Step{Op: "Distinct", Recv: f, Cols: bsList(g.subset(s.names, 2)), Null: g.rng.Intn(2) == 0}
	case 6:
		return Step{Op: "GroupBy", Recv: f, Cols: bsList(g.subset(s.names, 2)), Null: g.rng.Intn(2) == 0}
	case 7, 8:
		return Step{Op: "Apply", Recv: f, Instrs: g.randomInstrs(s, 3, false)}
	case 9:
		e := g.genExpr(s, types4[g.rng.Intn(4)], 2)
		return Step{Op: "Eval", Recv: f, Dst: toBS("V"), Expr: &e, Ctx: userCtx}
	case 10:
		return Step{Op: "Select", Recv: f, Cols: bsList(g.subset(s.names, 3))}
	case 11:
		a := g.rng.Intn(s.n + 1)
		return Step{Op: "Slice", Recv: f, A: a, B: a + g.rng.Intn(s.n-a+1)}
	case 12:
		return Step{Op: "Copy", Recv: f, Dst: toBS("K"), Src: toBS(g.oneOf(s.names))}
	case 13:
		return Step{Op: "View", Recv: f, Dst: toBS(g.oneOf(s.names))}
	case 14:
		return Step{Op: []string{"ToCSV", "ToJSON", "String"}[g.rng.Intn(3)], Recv: f}
	default:
		return Step{Op: "Equals", Recv: f, Other: g.rng.Intn(len(g.x.frames))}
	}
}

// heavy batches on one large frame: the operations take long enough to overlap in time, several of
// them use the same kind of scratch state (hash tables, matcher buffers with the same pattern)
func (g *Gen) concHeavy(n int) {
	rid := toBS("rid")
	g.begin("concurrent heavy")
	st := g.keyFrame(n, []int{3, 40, 300}[g.rng.Intn(3)], "AFSX")
	f := g.do(st)
	if g.frame(f).Err != nil {
		g.end()
		return
	}
	f0 := f
	f = g.do(Step{Op: "WithRowNums", Recv: f, Dst: rid})
	s := schemaOf(g.frame(f))
	pat := g.oneOf([]string{"%k1%", "K%", "%a", "%K2%"})
	mk := func(kind int) Step {
		switch kind {
		case 0:
			return Step{Op: "Distinct", Recv: f, Cols: bsList(g.subset([]string{"A", "F", "S", "X"}, 2)), Null: g.rng.Intn(2) == 0, Rid: rid}
		case 1:
			return Step{Op: "GroupBy", Recv: f, Cols: bsList(g.subset([]string{"A", "F", "S", "X"}, 2)), Null: g.rng.Intn(2) == 0, Rid: rid}
		case 2:
			return Step{Op: "Sort", Recv: f, Orders: g.sortOrders(s, 2), Rid: rid}
		case 3:
			cl := Clause{K: "leaf", Col: toBS(g.oneOf([]string{"S", "X"})), CmpK: "str", Cmp: "ilike", Arg: &Val{T: "string", S: toBS(pat)}}
			return Step{Op: "Filter", Recv: f, Clause: &cl}
		case 4:
			return Step{Op: "ToCSV", Recv: f}
		case 6: // a filter that fails after an earlier sub clause selected rows (work left half done) ...
			cl := Clause{K: "or", Subs: []Clause{{K: "leaf", Col: toBS("A"), CmpK: "str", Cmp: ">", Arg: &Val{T: "int", I: int64(g.rng.Intn(5) - 2)}},
				g.oneOfClause([]Clause{{K: "leaf", Col: toBS("S"), CmpK: "str", Cmp: "like", Arg: &Val{T: "string", S: toBS("(%")}},
					{K: "leaf", Col: toBS("nosuch"), CmpK: "str", Cmp: "=", Arg: &Val{T: "int", I: 1}}, {K: "leaf", Col: toBS("A"), CmpK: "str", Cmp: "bogus", Arg: &Val{T: "int", I: 1}}})}}
			return Step{Op: "Filter", Recv: f, Clause: &cl}
		case 8: // an And whose first sub clause keeps every row: the intermediate result is the receiver itself
			cl := Clause{K: "and", Subs: []Clause{{K: "leaf", Col: toBS("A"), CmpK: "str", Cmp: ">=", Arg: &Val{T: "int", I: -1000000}},
				{K: "leaf", Col: toBS("A"), CmpK: "str", Cmp: g.oneOf([]string{"<", ">", "!="}), Arg: &Val{T: "int", I: int64(g.rng.Intn(5) - 2)}}}}
			return Step{Op: "Filter", Recv: g.oneOf2(f, f0), Clause: &cl}
		case 7: // ... next to plain valid ones
			cl := Clause{K: "leaf", Col: toBS("A"), CmpK: "str", Cmp: g.oneOf([]string{"<", ">=", "="}), Arg: &Val{T: "int", I: int64(g.rng.Intn(5) - 2)}}
			return Step{Op: "Filter", Recv: g.oneOf2(f, f0), Clause: &cl}
		default:
			// each adds a column of its own to the same frame (itself the result of adding a column)
			dst := "U" + itoa(g.rng.Intn(8))
			switch g.rng.Intn(4) {
			case 0:
				return Step{Op: "Copy", Recv: f, Dst: toBS(dst), Src: toBS("A")}
			case 1:
				return Step{Op: "WithRowNums", Recv: f, Dst: toBS(dst)}
			case 2:
				e := Expr{K: "call", Op: "neg", Args: []Expr{{K: "col", Name: toBS("A")}}}
				return Step{Op: "Eval", Recv: f, Dst: toBS(dst), Expr: &e, Ctx: userCtx}
			}
			return Step{Op: "Apply", Recv: f, Instrs: []Instr{{Fn: FnRef{K: "fn1", Sym: "UpperS"}, Dst: toBS(dst), Src1: toBS("S")}}}
		}
	}
	// the failing and the plain filters of batch 6 once one after the other as well: what the failing ones
	// leave behind in process-wide state reaches the next call on this goroutine first
	for k := 0; k < 2; k++ {
		g.do(mk(6))
		g.do(mk(7))
	}
	for batch := 0; batch < 8; batch++ {
		subs := []Step{}
		focus := batch // most goroutines of a batch do the same kind of thing; every kind gets its batch
		for j := 0; j < 8; j++ {
			k := focus
			if batch == 6 {
				k = 6 + (j/2)%2
			}
			if batch == 7 {
				k = []int{8, 8, 4, 2, 0, 8, 3, 4}[j] // the And filters next to readers of the same index
			}
			if g.rng.Intn(4) == 0 {
				k = g.rng.Intn(6)
			}
			subs = append(subs, mk(k))
		}
		g.do(Step{Op: "Concurrent", Recv: -1, Subs: subs, A: 2, B: g.rng.Intn(1 << 20)})
	}
	g.end()
}

// many more goroutines than processors, all using GroupBy / Distinct (hash tables) on a frame and a
// slice of it: goroutines get descheduled in the middle of an operation
func (g *Gen) concMany() {
	rid := toBS("rid")
	g.begin("concurrent many")
	f := g.do(g.keyFrame(300, []int{5, 40, 150}[g.rng.Intn(3)], "AS"))
	f = g.do(Step{Op: "WithRowNums", Recv: f, Dst: rid})
	sl := g.do(Step{Op: "Slice", Recv: f, A: 0, B: 150})
	sl = g.do(Step{Op: "Drop", Recv: sl, Cols: []BS{rid}})
	sl = g.do(Step{Op: "WithRowNums", Recv: sl, Dst: rid})
	subs := []Step{}
	for j := 0; j < 64; j++ {
		recv := f
		if j%3 == 0 {
			recv = sl
		}
		cols := bsList([]string{[]string{"A", "S"}[j%2]})
		if j%2 == 0 {
			subs = append(subs, Step{Op: "Distinct", Recv: recv, Cols: cols, Null: true, Rid: rid})
		} else {
			subs = append(subs, Step{Op: "GroupBy", Recv: recv, Cols: cols, Null: true, Rid: rid})
		}
	}
	g.do(Step{Op: "Concurrent", Recv: -1, Subs: subs, A: 3, B: g.rng.Intn(1 << 20)})
	g.end()
}

func genC11(g *Gen) {
	for rep := 0; rep < g.pick(2, 20); rep++ {
		g.concMany()
	}
	for rep := 0; rep < g.pick(3, 40); rep++ {
		if g.thorough() {
			g.concHeavy([]int{600, 1200, 2500}[g.rng.Intn(3)])
		} else {
			g.concHeavy([]int{500, 700, 900}[rep%3]) // quick: similar sizes, so that no trace shard takes much longer than the others
		}
	}
	colsets := []string{"ABF", "AFTSE", "SREX", "SXE", "ATE", "ABCFGTUSRED"}
	sizes := []int{3, 8, 20, 60, 200}
	for rep := 0; rep < g.pick(30, 400); rep++ {
		n := sizes[g.rng.Intn(g.pick(4, 5))]
		g.begin("concurrent")
		root := g.do(g.stdNew(n, colsets[g.rng.Intn(len(colsets))], 10))
		if g.frame(root).Err != nil {
			g.end()
			continue
		}
		// sharing shapes: parent / children, siblings through Slice, a sorted copy, frames sharing an enum table
		g.derive(root)
		g.do(Step{Op: "Slice", Recv: root, A: 0, B: n / 2})
		g.do(Step{Op: "Slice", Recv: root, A: n / 3, B: n})
		g.derive(len(g.x.frames) - 1)
		nf := len(g.x.frames)
		for batch := 0; batch < 3; batch++ {
			k := 2 + g.rng.Intn(7)
			subs := []Step{}
			for j := 0; j < k; j++ {
				f := root
				switch g.rng.Intn(3) {
				case 0:
					f = g.rng.Intn(nf)
				case 1:
					f = 1 + g.rng.Intn(nf-1)
				}
				subs = append(subs, g.concOp(f))
			}
			g.do(Step{Op: "Concurrent", Recv: -1, Subs: subs, A: g.pick(2, 4), B: g.rng.Intn(1 << 20)})
		}
		g.end()
	}
}

func (g *Gen) oneOfClause(cs []Clause) Clause { return cs[g.rng.Intn(len(cs))] }
