package main

import (
	"flag"
	"fmt"
	"os"
	"strconv"
)

func usage() {
	fmt.Fprintln(os.Stderr, "usage: verifharness run  -scenarios s.ndjson -trace t.ndjson\n       verifharness gen  -prop Cxx -seed N -tier quick|thorough -scenarios s.ndjson -trace t.ndjson")
	os.Exit(2)
}

func main() {
	selfTestEncoding()
	if len(os.Args) < 2 {
		usage()
	}
	fs := flag.NewFlagSet(os.Args[1], flag.ExitOnError)
	scen := fs.String("scenarios", "", "scenario file (ndjson)")
	trace := fs.String("trace", "", "trace output (ndjson)")
	prop := fs.String("prop", "", "property id")
	seed := fs.Int64("seed", 1, "seed")
	tier := fs.String("tier", "quick", "quick|thorough")
	shards := fs.Int("shards", 1, "number of trace shards (files trace.0 ... )")
	fs.Parse(os.Args[2:])
	if s := os.Getenv("VERIF_SEED"); s != "" && !isFlagSet(fs, "seed") {
		if v, err := strconv.ParseInt(s, 10, 64); err == nil {
			*seed = v
		}
	}
	switch os.Args[1] {
	case "run":
		runCmd(*scen, *trace, *shards)
	case "gen":
		genCmd(*prop, *seed, *tier, *scen, *trace, *shards)
	default:
		usage()
	}
}

func isFlagSet(fs *flag.FlagSet, name string) bool {
	set := false
	fs.Visit(func(f *flag.Flag) {
		if f.Name == name {
			set = true
		}
	})
	return set
}

type shardedOut struct {
	files []*os.File
	execs []*Exec
}

func openShards(trace string, n int) *shardedOut {
	s := &shardedOut{}
	for i := 0; i < n; i++ {
		name := trace
		if n > 1 {
			name = fmt.Sprintf("%s.%d", trace, i)
		}
		f, err := os.Create(name)
		if err != nil {
			panic(err)
		}
		s.files = append(s.files, f)
		s.execs = append(s.execs, NewExec(f))
	}
	return s
}

func (s *shardedOut) close() int {
	n := 0
	for i, x := range s.execs {
		x.Flush()
		n += x.nEvents
		s.files[i].Close()
	}
	return n
}

func runCmd(scen, trace string, shards int) {
	out := openShards(trace, shards)
	k := 0
	readScenarios(scen, func(sc *Scenario) {
		out.execs[k%shards].RunScenario(sc)
		k++
	})
	n := out.close()
	fmt.Printf("{\"scenarios\":%d,\"events\":%d}\n", k, n)
}
