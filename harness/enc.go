package main

// Cell encoding shared by the harness and the TLA+ specification (DESIGN.md §3.2).
//
// A cell is a JSON array of integers  [null, x, k1, k2, ...]:
//   null = 1  -> the cell is null / NaN; nothing follows
//   null = 0  -> x is an identity discriminator (1 for -0.0, else 0) and k.. is an order- and
//                equality-preserving key compared lexicographically (a proper prefix is smaller):
//     int    : three chunks (22,21,21 bits) of uint64(v) with the sign bit flipped
//     float  : three chunks of the monotone transform of the IEEE bits, -0 mapped to +0
//     bool   : 0 / 1
//     string : the bytes
// TLC integers are 32 bit and its JSON reader takes neither null nor non-integers, hence this shape.

import (
	"sort"
	"encoding/json"
	"hash/fnv"
	"math"
	"strconv"
	"strings"

	"github.com/tobgu/qframe"
	"github.com/tobgu/qframe/types"
)

type BS []int // a byte string as a JSON array of ints (TLC can produce and consume it)

func toBS(s string) BS {
	r := make(BS, len(s))
	for i := 0; i < len(s); i++ {
		r[i] = int(s[i])
	}
	return r
}

func (b BS) String() string {
	r := make([]byte, len(b))
	for i, v := range b {
		r[i] = byte(v)
	}
	return string(r)
}

func bsList(ss []string) []BS {
	r := make([]BS, len(ss))
	for i, s := range ss {
		r[i] = toBS(s)
	}
	return r
}

type Cell []int

var nullCell = Cell{1}

func chunks(u uint64) (int, int, int) {
	return int(u >> 42), int((u >> 21) & 0x1fffff), int(u & 0x1fffff)
}

func encInt(v int) Cell {
	a, b, c := chunks(uint64(v) ^ (1 << 63))
	return Cell{0, 0, a, b, c}
}

func encFloat(f float64) Cell {
	if math.IsNaN(f) {
		return nullCell
	}
	x := 0
	if f == 0 && math.Signbit(f) {
		x = 1
		f = 0
	}
	b := math.Float64bits(f)
	var u uint64
	if b>>63 == 1 {
		u = ^b
	} else {
		u = b | (1 << 63)
	}
	a, bb, c := chunks(u)
	return Cell{0, x, a, bb, c}
}

func encBool(v bool) Cell {
	if v {
		return Cell{0, 0, 1}
	}
	return Cell{0, 0, 0}
}

func encStr(s string) Cell {
	c := make(Cell, 2+len(s))
	for i := 0; i < len(s); i++ {
		c[2+i] = int(s[i])
	}
	return c
}

func encPStr(s *string) Cell {
	if s == nil {
		return nullCell
	}
	return encStr(*s)
}

// cellLess is used only by the start-up self test of the encoding.
func cellLess(a, b Cell) bool {
	for i := 2; ; i++ {
		if i >= len(a) {
			return i < len(b)
		}
		if i >= len(b) {
			return false
		}
		if a[i] != b[i] {
			return a[i] < b[i]
		}
	}
}

func selfTestEncoding() {
	ints := []int{math.MinInt64, math.MinInt64 + 1, -1 << 42, -(1 << 21) - 1, -(1 << 21), -2, -1, 0, 1, 2, 1<<21 - 1, 1 << 21, 1 << 42, math.MaxInt64 - 1, math.MaxInt64}
	for i := 0; i+1 < len(ints); i++ {
		if !cellLess(encInt(ints[i]), encInt(ints[i+1])) || cellLess(encInt(ints[i+1]), encInt(ints[i])) {
			panic("int encoding not monotone")
		}
	}
	fl := []float64{math.Inf(-1), -math.MaxFloat64, -1e10, -1, -math.SmallestNonzeroFloat64, 0, math.SmallestNonzeroFloat64, 0.5, 1, 1.0000000000000002, 2.5, 1e300, math.MaxFloat64, math.Inf(1)}
	for i := 0; i+1 < len(fl); i++ {
		if !cellLess(encFloat(fl[i]), encFloat(fl[i+1])) || cellLess(encFloat(fl[i+1]), encFloat(fl[i])) {
			panic("float encoding not monotone")
		}
	}
	nz := encFloat(math.Copysign(0, -1))
	pz := encFloat(0)
	if cellLess(nz, pz) || cellLess(pz, nz) || nz[1] != 1 || pz[1] != 0 {
		panic("zero encoding")
	}
	ss := []string{"", "\x00", "a", "a\x00", "ab", "b", "\xff"}
	for i := 0; i+1 < len(ss); i++ {
		if !cellLess(encStr(ss[i]), encStr(ss[i+1])) || (ss[i] < ss[i+1]) != true {
			panic("string encoding not monotone")
		}
	}
}

// Obs is the observation of a frame through its public API (projection function of DESIGN §4).
type Obs struct {
	Len   int      `json:"len"`
	Names []BS     `json:"names"`
	Types []string `json:"types"`
	Cols  [][]Cell `json:"cols"`
	// the frame's name map as ColumnTypeMap and Contains show it (absent for error frames)
	Tmap     []TmapEntry `json:"tmap,omitempty"`
	Contains int         `json:"contains,omitempty"`
}

type TmapEntry struct {
	Name BS     `json:"name"`
	Typ  string `json:"typ"`
}

var emptyObs = Obs{Len: -2, Names: []BS{}, Types: []string{}, Cols: [][]Cell{}}

// observe reads a frame only through exported methods: Len, ColumnNames, ColumnTypes, typed views.
// viaSlice selects View.Slice() instead of View.ItemAt(i) as the source of the cells.
func observe(qf qframe.QFrame, viaSlice bool) Obs {
	if qf.Err != nil {
		return Obs{Len: qf.Len(), Names: []BS{}, Types: []string{}, Cols: [][]Cell{}}
	}
	names := qf.ColumnNames()
	typs := qf.ColumnTypes()
	o := Obs{Len: qf.Len(), Names: bsList(names), Types: make([]string, len(typs)), Cols: make([][]Cell, len(names))}
	if len(names) > 0 {
		tm := qf.ColumnTypeMap()
		keys := make([]string, 0, len(tm))
		for k := range tm {
			keys = append(keys, k)
		}
		sort.Strings(keys)
		for _, k := range keys {
			o.Tmap = append(o.Tmap, TmapEntry{Name: toBS(k), Typ: string(tm[k])})
		}
		o.Contains = 1
		for _, n := range names {
			if !qf.Contains(n) {
				o.Contains = 2
			}
		}
		if qf.Contains("no such column \x00") {
			o.Contains = 2
		}
	}
	for c, name := range names {
		o.Types[c] = string(typs[c])
		cells := []Cell{}
		switch typs[c] {
		case types.Int:
			v := qf.MustIntView(name)
			if viaSlice {
				for _, x := range v.Slice() {
					cells = append(cells, encInt(x))
				}
			} else {
				for i := 0; i < v.Len(); i++ {
					cells = append(cells, encInt(v.ItemAt(i)))
				}
			}
		case types.Float:
			v := qf.MustFloatView(name)
			if viaSlice {
				for _, x := range v.Slice() {
					cells = append(cells, encFloat(x))
				}
			} else {
				for i := 0; i < v.Len(); i++ {
					cells = append(cells, encFloat(v.ItemAt(i)))
				}
			}
		case types.Bool:
			v := qf.MustBoolView(name)
			if viaSlice {
				for _, x := range v.Slice() {
					cells = append(cells, encBool(x))
				}
			} else {
				for i := 0; i < v.Len(); i++ {
					cells = append(cells, encBool(v.ItemAt(i)))
				}
			}
		case types.String:
			v := qf.MustStringView(name)
			if viaSlice {
				for _, x := range v.Slice() {
					cells = append(cells, encPStr(x))
				}
			} else {
				for i := 0; i < v.Len(); i++ {
					cells = append(cells, encPStr(v.ItemAt(i)))
				}
			}
		case types.Enum:
			v := qf.MustEnumView(name)
			if viaSlice {
				for _, x := range v.Slice() {
					cells = append(cells, encPStr(x))
				}
			} else {
				for i := 0; i < v.Len(); i++ {
					cells = append(cells, encPStr(v.ItemAt(i)))
				}
			}
		default:
			// Undefined (zero length, typeless) column: no view exists.
		}
		o.Cols[c] = cells
	}
	return o
}

func digest(o Obs) int {
	b, _ := json.Marshal(o)
	h := fnv.New32a()
	h.Write(b)
	return int(h.Sum32() & 0x3fffffff)
}

// parseFloat understands the float notation used in scenarios: decimal text, NaN, -0, +Inf, -Inf,
// bits:0x....
func parseFloat(s string) float64 {
	if strings.HasPrefix(s, "bits:") {
		u, err := strconv.ParseUint(strings.TrimPrefix(s[5:], "0x"), 16, 64)
		if err != nil {
			panic("bad float bits " + s)
		}
		return math.Float64frombits(u)
	}
	f, err := strconv.ParseFloat(s, 64)
	if err != nil {
		panic("bad float " + s)
	}
	return f
}

func fmtFloat(f float64) string {
	return "bits:0x" + strconv.FormatUint(math.Float64bits(f), 16)
}
