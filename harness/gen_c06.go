package main

func init() {
	generators["C06"] = genC06
	generators["C07"] = genC07
}

func fnsFor(arity int, argT string) []string {
	r := []string{}
	for name, e := range fnReg {
		if e.Arity == arity && (arity == 0 || e.ArgT == argT) && !containsColon(name) {
			if arity == 2 && e.ResT != e.ArgT {
				continue // predicates are not apply functions
			}
			r = append(r, name)
		}
	}
	sortStrings(r)
	return r
}

func containsColon(s string) bool {
	for i := 0; i < len(s); i++ {
		if s[i] == ':' {
			return true
		}
	}
	return false
}

func sortStrings(a []string) {
	for i := 1; i < len(a); i++ {
		for j := i; j > 0 && a[j] < a[j-1]; j-- {
			a[j], a[j-1] = a[j-1], a[j]
		}
	}
}

var constVals = []Val{{T: "int", I: 5}, {T: "int", I: -1}, {T: "float", F: "2.5"}, {T: "float", F: "NaN"}, {T: "float", F: "-0"}, {T: "bool", B: true},
	{T: "string", S: toBS("k")}, {T: "string", S: toBS("")}, {T: "pstring", S: toBS("p")}, {T: "nilpstring"}}

// randomInstrs: a program over the columns of s; track the (expected) types of new columns so that
// later instructions can use earlier destinations as sources.
func (g *Gen) randomInstrs(s schema, maxN int, filtered bool) []Instr {
	names := append([]string{}, s.names...)
	typs := map[string]string{}
	for i, n := range s.names {
		typs[n] = s.types[i]
	}
	k := 1 + g.rng.Intn(maxN)
	ins := []Instr{}
	newNames := []string{"N1", "N2", "N3"}
	if !filtered && g.rng.Intn(6) == 0 {
		// a column copy followed by an update of the copy from itself: the copy shares storage with its source
		src := g.oneOf(names)
		if fs := fnsFor(1, fnType(typs[src])); len(fs) > 0 {
			same := []string{}
			for _, f := range fs {
				if fnReg[f].ResT == fnType(typs[src]) && typs[src] != "enum" {
					same = append(same, f)
				}
			}
			if len(same) > 0 {
				ins = append(ins, Instr{Fn: FnRef{K: "col", V: &Val{T: "col", S: toBS(src)}}, Dst: toBS("N1")},
					Instr{Fn: FnRef{K: "fn1", Sym: g.oneOf(same)}, Dst: toBS("N1"), Src1: toBS("N1")})
				names = append(names, "N1")
				typs["N1"] = typs[src]
			}
		}
	}
	for i := 0; i < k; i++ {
		dst := g.oneOf(newNames)
		if g.rng.Intn(3) == 0 {
			dst = g.oneOf(names)
		}
		if g.rng.Intn(40) == 0 {
			dst = g.oneOf([]string{"", "$d", "'q'"})
		}
		src1 := g.oneOf(names)
		t1 := fnType(typs[src1])
		in := Instr{Dst: toBS(dst)}
		r := g.rng.Intn(100)
		rt := ""
		switch {
		case r < 10 && !filtered:
			v := constVals[g.rng.Intn(len(constVals))]
			in.Fn = FnRef{K: "const", V: &v}
			rt = map[string]string{"int": "int", "float": "float", "bool": "bool"}[v.T]
			if rt == "" {
				rt = "string"
			}
		case r < 18 && !filtered:
			in.Fn = FnRef{K: "col", V: &Val{T: "col", S: toBS(src1)}}
			rt = typs[src1]
		case r < 26:
			f := g.oneOf(fnsFor(0, ""))
			in.Fn = FnRef{K: "fn0", Sym: f}
			rt = fnReg[f].ResT
		case r < 60:
			f := g.oneOf(fnsFor(1, t1))
			if g.rng.Intn(15) == 0 {
				f = g.oneOf(fnsFor(1, g.oneOf([]string{"int", "float", "bool", "string"})))
			}
			in.Fn, in.Src1 = FnRef{K: "fn1", Sym: f}, toBS(src1)
			rt = fnReg[f].ResT
		case r < 90:
			cands := []string{}
			for _, n := range names {
				if typs[n] == typs[src1] {
					cands = append(cands, n)
				}
			}
			src2 := g.oneOf(cands)
			if g.rng.Intn(15) == 0 {
				src2 = g.oneOf(names)
			}
			f := g.oneOf(fnsFor(2, t1))
			in.Fn, in.Src1, in.Src2 = FnRef{K: "fn2", Sym: f}, toBS(src1), toBS(src2)
			rt = fnReg[f].ResT
		case r < 94 && !filtered:
			in.Fn, in.Src1 = FnRef{K: "builtin", Sym: g.oneOf([]string{"ToUpper", "ToUpper", "nosuch"})}, toBS(src1)
			rt = typs[src1]
		case r < 97:
			in.Fn, in.Src1 = FnRef{K: "bad"}, toBS(src1)
		default:
			in.Fn, in.Src1 = FnRef{K: "fn1", Sym: g.oneOf(fnsFor(1, t1))}, toBS("nosuch")
		}
		ins = append(ins, in)
		if rt != "" && dst != "" {
			if _, ok := typs[dst]; !ok {
				names = append(names, dst)
			}
			typs[dst] = rt
		}
	}
	return ins
}

// upperFamilies: the built-in "ToUpper" on string columns rich in empty strings, nulls and repeated
// values, in storage order and rearranged (sorted backwards, sliced), in place and to a new column
func (g *Gen) upperFamilies() {
	pool := []string{"", "", "abc", "a", "", "é", "Ab", "zz"}
	for rep := 0; rep < g.pick(60, 600); rep++ {
		n := 2 + g.rng.Intn(7)
		strs := make([]*BS, n)
		pos := make([]int64, n)
		for i := range strs {
			if g.rng.Intn(7) != 0 {
				strs[i] = bsp(pool[g.rng.Intn(len(pool))])
			}
			pos[i] = int64(i)
		}
		g.begin("builtin upper")
		f := g.do(Step{Op: "New", Recv: -1, HasOrder: true, ColOrder: bsList([]string{"S", "P"}),
			Data: []ColData{{Name: toBS("S"), Kind: "string", Strs: strs}, {Name: toBS("P"), Kind: "int", Ints: pos}}})
		up := func(f int, dst string) int {
			return g.do(Step{Op: "Apply", Recv: f, Instrs: []Instr{{Fn: FnRef{K: "builtin", Sym: "ToUpper"}, Dst: toBS(dst), Src1: toBS("S")}}})
		}
		up(f, "S")
		u := up(f, "U")
		up(u, "S") // on a column produced by Apply
		r := g.do(Step{Op: "Sort", Recv: f, Orders: []Order{{Col: toBS("P"), Rev: true}}})
		up(r, g.oneOf([]string{"S", "U"}))
		if n > 2 {
			a := g.rng.Intn(n - 1)
			up(g.do(Step{Op: "Slice", Recv: g.oneOf2(f, r), A: a, B: a + 1 + g.rng.Intn(n-a-1)}), "S")
		}
		cl := Clause{K: "leaf", Col: toBS("S"), CmpK: "str", Cmp: "isnotnull"}
		up(g.do(Step{Op: "Filter", Recv: r, Clause: &cl}), "U")
		g.end()
	}
}

// d15Witness: the recorded finding D15 (KNOWN_FINDINGS.jsonl): under FilteredApply a constant and a column
// copy reach ALL rows, not only those matching the clause. Fixed inputs, no randomness; Opts 77 asks the
// specification to judge these forms by the letter of C06 instead of leaving them unspecified.
func (g *Gen) d15Witness() {
	cl := Clause{K: "leaf", Col: toBS("A"), CmpK: "str", Cmp: ">", Arg: &Val{T: "int", I: 1}}
	for _, in := range []Instr{
		{Fn: FnRef{K: "const", V: &Val{T: "int", I: 5}}, Dst: toBS("X")},
		{Fn: FnRef{K: "col", V: &Val{T: "col", S: toBS("S")}}, Dst: toBS("C")},
	} {
		g.begin("D15 witness: FilteredApply with " + in.Fn.K)
		f := g.do(Step{Op: "New", Recv: -1, HasOrder: true, ColOrder: bsList([]string{"A", "S"}),
			Data: []ColData{{Name: toBS("A"), Kind: "int", Ints: []int64{1, 2, 3}}, {Name: toBS("S"), Kind: "string", Strs: []*BS{bsp("x"), bsp("y"), bsp("z")}}}})
		g.do(Step{Op: "FilteredApply", Recv: f, Clause: &cl, Instrs: []Instr{in}, Opts: []int{77}})
		g.end()
	}
}

func genC06(g *Gen) {
	g.d15Witness()
	g.upperFamilies()
	g.arrangedFrames("apply arranged", func(f int) {
		in := func(k, sym, dst, s1, s2 string) Instr {
			i := Instr{Fn: FnRef{K: k, Sym: sym}, Dst: toBS(dst), Src1: toBS(s1)}
			if s2 != "" {
				i.Src2 = toBS(s2)
			}
			return i
		}
		g.do(Step{Op: "Apply", Recv: f, Instrs: []Instr{in("fn1", "negI", "N1", "I", ""), in("fn1", "negF", "N2", "F", ""), in("fn1", "NotB", "N3", "B", ""),
			in("fn1", "bangS", "N4", "S", ""), in("fn1", "bangS", "N5", "E", ""), in("fn1", "isNilS", "N6", "S", ""), in("fn1", "lenFS", "N7", "X", "")}})
		g.do(Step{Op: "Apply", Recv: f, Instrs: []Instr{in("fn2", "MinusI", "I", "I", "P"), in("fn2", "MinusF", "F", "F", "F"), in("fn2", "implB", "B", "B", "B"),
			in("fn2", "ConcatS", "S", "S", "S"), in("builtin", "ToUpper", "U", "S", ""), in("builtin", "ToUpper", "E", "E", "")}})
		g.do(Step{Op: "Apply", Recv: f, Instrs: []Instr{{Fn: FnRef{K: "col", V: &Val{T: "col", S: toBS("S")}}, Dst: toBS("C")}, {Fn: FnRef{K: "const", V: &Val{T: "int", I: 7}}, Dst: toBS("K")}}})
		cat := leafCatalogue()
		cl := cat[g.rng.Intn(len(cat))]
		g.do(Step{Op: "FilteredApply", Recv: f, Clause: &cl, Instrs: []Instr{in("fn1", "negI", "I", "I", ""), in("fn1", "bangS", "N4", "S", "")}})
		g.do(Step{Op: "WithRowNums", Recv: f, Dst: toBS("rn")})
	})
	colsets := []string{"ABF", "FGT", "TUS", "SRE", "ABCFGTUSR", "EXA", "SB"}
	sizes := []int{0, 1, 2, 3, 5, 8, 13, 30, 80}
	for rep := 0; rep < g.pick(400, 4000); rep++ {
		n := sizes[g.rng.Intn(g.pick(8, len(sizes)))]
		g.begin("apply")
		f := g.do(g.stdNew(n, colsets[g.rng.Intn(len(colsets))], 12))
		for k := g.rng.Intn(3); k > 0; k-- {
			f = g.derive(f)
		}
		s := schemaOf(g.frame(f))
		if s.err || len(s.names) == 0 {
			g.end()
			continue
		}
		for k := 0; k < 3; k++ {
			switch g.rng.Intn(6) {
			case 0, 1, 2:
				g.do(Step{Op: "Apply", Recv: f, Instrs: g.randomInstrs(s, g.pick(4, 8), false)})
			case 3, 4:
				cl := g.randomClause(s, 2)
				g.do(Step{Op: "FilteredApply", Recv: f, Clause: &cl, Instrs: g.randomInstrs(s, g.pick(3, 6), true)})
			default:
				g.do(Step{Op: "WithRowNums", Recv: f, Dst: toBS(g.oneOf(append([]string{"rn", "rn", "", "$r"}, s.names...)))})
			}
		}
		// siblings: several calls that each ADD a column to the same parent, which is itself the result of
		// adding columns (a frame header with room to spare): none may show in another's result
		if g.rng.Intn(2) == 0 {
			par := g.do(Step{Op: "WithRowNums", Recv: f, Dst: toBS("w0")})
			if g.rng.Intn(2) == 0 {
				par = g.do(Step{Op: "Copy", Recv: par, Dst: toBS("w1"), Src: toBS(s.names[0])})
			}
			if sp := schemaOf(g.frame(par)); !sp.err {
				g.do(Step{Op: "WithRowNums", Recv: par, Dst: toBS("s1")})
				g.do(Step{Op: "Copy", Recv: par, Dst: toBS("s2"), Src: toBS(g.oneOf(sp.names))})
				ins := g.randomInstrs(sp, 2, false)
				for i := range ins {
					ins[i].Dst = toBS("s3" + itoa(i))
				}
				g.do(Step{Op: "Apply", Recv: par, Instrs: ins})
				e := g.genExpr(sp, g.oneOf([]string{"int", "float", "bool", "string"}), 2)
				g.do(Step{Op: "Eval", Recv: par, Dst: toBS("s4"), Expr: &e, Ctx: userCtx})
				g.do(Step{Op: "Apply", Recv: par, Instrs: []Instr{{Fn: FnRef{K: "const", V: &Val{T: "int", I: 5}}, Dst: toBS("s5")}}})
			}
		}
		// chain on a result so that destinations of one call are sources of the next
		last := len(g.x.frames) - 1
		if s2 := schemaOf(g.frame(last)); !s2.err && len(s2.names) > 0 {
			g.do(Step{Op: "Apply", Recv: last, Instrs: g.randomInstrs(s2, g.pick(3, 6), false)})
		}
		g.end()
	}
	g.filteredApplySelections()
}

// filteredApplySelections: FilteredApply under clauses that select no row, every row, the first, the last and
// alternate rows, with an instruction of every function signature - including the built-in ToUpper, whose
// string form is specified under a filter too - to a new destination and onto its own source, on a fresh
// frame, a sorted one and a slice; frames of 0..5 rows.
func (g *Gen) filteredApplySelections() {
	in := func(k, sym, dst, s1, s2 string) Instr {
		i := Instr{Fn: FnRef{K: k, Sym: sym}, Dst: toBS(dst), Src1: toBS(s1)}
		if s2 != "" {
			i.Src2 = toBS(s2)
		}
		return i
	}
	for n := 0; n <= 5; n++ {
		iv, sv, ev := make([]int64, n), make([]*BS, n), make([]*BS, n)
		for i := 0; i < n; i++ {
			iv[i], sv[i], ev[i] = int64(i), bsp([]string{"a", "Bc", "é", "", "zz"}[i%5]), bsp([]string{"lo", "hi"}[i%2])
		}
		if n > 2 {
			sv[2] = nil
		}
		sel := []Clause{
			{K: "leaf", Col: toBS("I"), CmpK: "str", Cmp: "<", Arg: &Val{T: "int", I: 0}},
			{K: "leaf", Col: toBS("I"), CmpK: "str", Cmp: ">=", Arg: &Val{T: "int", I: 0}},
			{K: "leaf", Col: toBS("I"), CmpK: "str", Cmp: "=", Arg: &Val{T: "int", I: 0}},
			{K: "leaf", Col: toBS("I"), CmpK: "str", Cmp: "=", Arg: &Val{T: "int", I: int64(n - 1)}},
			{K: "leaf", Col: toBS("I"), CmpK: "str", Cmp: "any_bits", Arg: &Val{T: "int", I: 1}},
			{K: "leaf", Col: toBS("S"), CmpK: "str", Cmp: "isnull"},
		}
		for variant := 0; variant < 3; variant++ {
			g.begin("filtered apply selections")
			f := g.do(Step{Op: "New", Recv: -1, HasOrder: true, ColOrder: bsList([]string{"I", "S", "E"}), HasEnums: true,
				Enums: []EnumDecl{{Name: toBS("E"), Vals: bsList([]string{"lo", "hi"})}},
				Data: []ColData{{Name: toBS("I"), Kind: "int", Ints: iv}, {Name: toBS("S"), Kind: "string", Strs: sv}, {Name: toBS("E"), Kind: "string", Strs: ev}}})
			switch variant {
			case 1:
				f = g.do(Step{Op: "Sort", Recv: f, Orders: []Order{{Col: toBS("I"), Rev: true}}})
			case 2:
				if n < 2 {
					g.end()
					continue
				}
				f = g.do(Step{Op: "Slice", Recv: f, A: 1, B: n})
			}
			for ci := range sel {
				cl := sel[ci]
				for _, ins := range [][]Instr{
					{in("builtin", "ToUpper", "U", "S", "")}, {in("builtin", "ToUpper", "S", "S", "")}, {in("builtin", "ToUpper", "U", "E", "")},
					{in("fn1", "bangS", "U", "S", ""), in("builtin", "ToUpper", "V", "U", "")},
					{in("fn1", "negI", "N", "I", ""), in("fn2", "MinusI", "I", "I", "I"), in("fn2", "ConcatS", "S", "S", "S"), in("fn1", "isNilS", "B", "S", "")},
				} {
					g.do(Step{Op: "FilteredApply", Recv: f, Clause: &cl, Instrs: ins})
				}
			}
			g.end()
		}
	}
}

// ---------------------------------------------------------------- Eval

type sigT struct{ op, res string }

var unaryOps = map[string][]sigT{
	"int":    {{"abs", "int"}, {"str", "string"}, {"bool", "bool"}, {"float", "float"}, {"neg", "int"}, {"half", "float"}, {"odd", "bool"}, {"nilneg", "string"}},
	"float":  {{"abs", "float"}, {"str", "string"}, {"negf", "float"}, {"sign", "int"}, {"isneg", "bool"}},
	"bool":   {{"!", "bool"}, {"str", "string"}, {"int", "int"}, {"fltb", "float"}},
	"string": {{"upper", "string"}, {"lower", "string"}, {"str", "string"}, {"len", "int"}, {"bang", "string"}, {"isnil", "bool"}, {"lenf", "float"}, {"nilempty", "string"}},
}
var binaryOps = map[string][]string{
	"int":    {"+", "-", "*", "-", "fst"},
	"float":  {"+", "-", "*", "/", "-"},
	"bool":   {"&", "|", "!=", "nand", "impl"},
	"string": {"+", "+", "fsts"},
}
// one user function for every (operand type, result type) branch of the columns' Apply1 / Apply2
var userCtx = []CtxFn{{"neg", "negI"}, {"half", "halfI"}, {"negf", "negF"}, {"bang", "bangS"}, {"fst", "fstI"}, {"impl", "implB"}, {"fsts", "fstS"},
	{"odd", "oddI"}, {"nilneg", "nilIfNegI"}, {"sign", "signF"}, {"isneg", "isNegF"}, {"fltb", "fltB"}, {"isnil", "isNilS"}, {"lenf", "lenFS"}, {"nilempty", "nilIfEmptyS"}}

func (g *Gen) constOf(t string) *Val {
	switch t {
	case "int":
		return &Val{T: "int", I: []int64{10, 3, -2, 0, 7}[g.rng.Intn(5)]}
	case "float":
		return &Val{T: "float", F: []string{"10", "2.5", "-1.5", "0.5"}[g.rng.Intn(4)]}
	case "bool":
		return &Val{T: "bool", B: g.rng.Intn(2) == 0}
	}
	if g.rng.Intn(6) == 0 {
		return &Val{T: "nil"}
	}
	return &Val{T: "string", S: toBS([]string{"k", "", "Zz"}[g.rng.Intn(3)])}
}

// genExpr: an expression whose value has type t (mostly), of depth <= d
func (g *Gen) genExpr(s schema, t string, d int) Expr {
	cols := s.colsOfType(t)
	if t == "string" && g.rng.Intn(3) == 0 {
		cols = append(cols, s.colsOfType("enum")...)
	}
	if d <= 0 || g.rng.Intn(4) == 0 {
		if len(cols) > 0 && g.rng.Intn(3) != 0 {
			c := Expr{K: "col", Name: toBS(g.oneOf(cols))}
			if g.rng.Intn(6) == 0 {
				return Expr{K: "val", Args: []Expr{c}} // Val(column) is an expression too
			}
			return c
		}
		return Expr{K: "const", V: g.constOf(t)}
	}
	if g.rng.Intn(3) == 0 {
		// unary whose result is t
		cands := [][2]string{}
		for _, at := range []string{"bool", "float", "int", "string"} { // fixed order: generation must be reproducible from the seed
			l := unaryOps[at]
			for _, sg := range l {
				if sg.res == t {
					cands = append(cands, [2]string{at, sg.op})
				}
			}
		}
		if len(cands) > 0 {
			c := cands[g.rng.Intn(len(cands))]
			return Expr{K: "call", Op: c[1], Args: []Expr{g.genExpr(s, c[0], d-1)}}
		}
	}
	ops := binaryOps[t]
	if len(ops) == 0 {
		return Expr{K: "const", V: g.constOf(t)}
	}
	k := 2
	if g.rng.Intn(4) == 0 {
		k = 3 + g.rng.Intn(2)
	}
	args := []Expr{}
	for i := 0; i < k; i++ {
		args = append(args, g.genExpr(s, t, d-1))
	}
	return Expr{K: "call", Op: g.oneOf(ops), Args: args}
}

func (g *Gen) badExpr(s schema) Expr {
	switch g.rng.Intn(7) {
	case 0:
		return Expr{K: "call", Op: "nosuchfn", Args: []Expr{{K: "col", Name: toBS(g.oneOf(s.names))}}}
	case 1:
		return Expr{K: "call", Op: "+", Args: []Expr{{K: "col", Name: toBS("nosuch")}, {K: "const", V: &Val{T: "int", I: 1}}}}
	case 2:
		return Expr{K: "call", Op: "+", Args: []Expr{}}
	case 3:
		return Expr{K: "bad"}
	case 4:
		return Expr{K: "col", Name: toBS("nosuch")}
	case 5:
		return Expr{K: "call", Op: "+", Args: []Expr{g.genExpr(s, "int", 1), g.genExpr(s, "string", 1)}}
	default:
		return Expr{K: "call", Op: "abs", Args: []Expr{{K: "call", Op: "+", Args: []Expr{{K: "col", Name: toBS("nosuch")}, {K: "col", Name: toBS(g.oneOf(s.names))}}}}}
	}
}

var tempLike = []string{"const-temp-0", "colcol-temp-0", "unary-temp-0", "colcol-temp-1", "const-temp-1"}

func genC07(g *Gen) {
	g.arrangedFrames("eval arranged", func(f int) {
		c := func(n string) Expr { return Expr{K: "col", Name: toBS(n)} }
		call := func(op string, a ...Expr) *Expr { return &Expr{K: "call", Op: op, Args: a} }
		k := Expr{K: "const", V: &Val{T: "int", I: 3}}
		for _, e := range []struct {
			dst string
			e   *Expr
		}{{"V", call("-", c("I"), c("P"))}, {"I", call("+", c("I"), k)}, {"V", call("abs", *call("neg", c("I")))}, {"V", call("*", c("F"), c("F"))},
			{"V", call("!", c("B"))}, {"V", call("+", c("S"), c("S"))}, {"V", call("upper", c("E"))}, {"V", call("len", c("S"))}, {"V", call("isnil", c("S"))},
			{"V", call("str", c("I"))}, {"V", call("float", c("I"))}, {"S", call("bang", c("X"))},
			{"V", call("isnil", c("E"))}, {"V", call("lenf", c("E"))}, {"V", call("bang", c("E"))}, {"V", call("nilempty", c("S"))}} {
			g.do(Step{Op: "Eval", Recv: f, Dst: toBS(e.dst), Expr: e.e, Ctx: userCtx})
		}
	})
	colsets := []string{"ABF", "FGT", "TUS", "SRE", "ABCFGTUSR", "EXA", "AB", "S"}
	sizes := []int{0, 1, 2, 3, 5, 8, 20}
	types4 := []string{"int", "float", "bool", "string"}
	for rep := 0; rep < g.pick(120, 3000); rep++ {
		n := sizes[g.rng.Intn(len(sizes))]
		g.begin("eval")
		st := g.stdNew(n, colsets[g.rng.Intn(len(colsets))], 8)
		// keep ints small so that products stay far from overflow; no zero divisors arise: "/" is float only
		if g.rng.Intn(3) == 0 {
			// frames that already own columns named like temporaries
			for _, tn := range g.subset(tempLike, 2) {
				st.Data = append(st.Data, ColData{Name: toBS(tn), Kind: "int", Ints: g.intVals(n, 8)})
				st.ColOrder = append(st.ColOrder, toBS(tn))
			}
		}
		f := g.do(st)
		if g.rng.Intn(2) == 0 {
			f = g.derive(f)
		}
		s := schemaOf(g.frame(f))
		if s.err || len(s.names) == 0 {
			g.end()
			continue
		}
		for k := 0; k < 4; k++ {
			t := types4[g.rng.Intn(4)]
			e := g.genExpr(s, t, g.pick(3, 6))
			if g.rng.Intn(12) == 0 {
				e = g.badExpr(s)
			}
			if e.K != "call" && g.rng.Intn(2) == 0 {
				e = Expr{K: "val", Args: []Expr{e}}
			}
			dst := g.oneOf([]string{"N", "N", g.oneOf(s.names), g.oneOf(tempLike), g.oneOf(tempLike)})
			if g.rng.Intn(40) == 0 {
				dst = g.oneOf([]string{"", "$x"})
			}
			stp := Step{Op: "Eval", Recv: f, Dst: toBS(dst), Expr: &e}
			if exprUsesUser(&e) || g.rng.Intn(4) == 0 {
				stp.Ctx = append([]CtxFn{}, userCtx...)
				if g.rng.Intn(8) == 0 {
					stp.Ctx = append(stp.Ctx, CtxFn{"$bad", "negI"}, CtxFn{"abs", "negI"}) // rejected name; override of a default
				}
			}
			g.do(stp)
		}
		if g.rng.Intn(3) == 0 {
			g.siblingAdds(f)
		}
		g.end()
	}
	g.evalNamePairs()
}

// evalNamePairs: the product destination x source over existing and missing column names (equal or not),
// for a bare column reference, the same wrapped in Val, a one- and a two-argument call on it, and Copy -
// on a fresh frame and on a derived one.
func (g *Gen) evalNamePairs() {
	names := []string{"A", "S", "Q", "R"}
	for _, derived := range []bool{false, true} {
		for _, dst := range names {
			g.begin("eval name pairs")
			f := g.do(Step{Op: "New", Recv: -1, HasOrder: true, ColOrder: bsList([]string{"A", "S"}),
				Data: []ColData{{Name: toBS("A"), Kind: "int", Ints: []int64{3, -1, 2}}, {Name: toBS("S"), Kind: "string", Strs: []*BS{bsp("x"), nil, bsp("z")}}}})
			if derived {
				f = g.do(Step{Op: "Sort", Recv: f, Orders: []Order{{Col: toBS("A")}}})
			}
			for _, src := range names {
				c := Expr{K: "col", Name: toBS(src)}
				g.do(Step{Op: "Eval", Recv: f, Dst: toBS(dst), Expr: &c})
				v := Expr{K: "val", Args: []Expr{c}}
				g.do(Step{Op: "Eval", Recv: f, Dst: toBS(dst), Expr: &v})
				one := Expr{K: "call", Op: map[string]string{"S": "len"}[src], Args: []Expr{c}}
				if one.Op == "" {
					one.Op = "abs"
				}
				g.do(Step{Op: "Eval", Recv: f, Dst: toBS(dst), Expr: &one})
				two := Expr{K: "call", Op: "+", Args: []Expr{c, c}}
				g.do(Step{Op: "Eval", Recv: f, Dst: toBS(dst), Expr: &two})
				g.do(Step{Op: "Copy", Recv: f, Dst: toBS(dst), Src: toBS(src)})
			}
			g.end()
		}
	}
}

func exprUsesUser(e *Expr) bool {
	if e.K == "call" {
		for _, u := range userCtx {
			if u.Name == e.Op {
				return true
			}
		}
	}
	for i := range e.Args {
		if exprUsesUser(&e.Args[i]) {
			return true
		}
	}
	return false
}
