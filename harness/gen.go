package main

// Seeded scenario generators (direction B of DESIGN §2). A generator builds a scenario step by
// step while it is being executed, so that later steps can refer to any member of the family and
// to the (real) schema of earlier results; it decides inputs only.

import (
	"bufio"
	"encoding/json"
	"fmt"
	"math"
	"math/rand"
	"os"

	"github.com/tobgu/qframe"
)

type Gen struct {
	rng   *rand.Rand
	out   *shardedOut
	scOut *bufio.Writer
	tier  string
	prop  string
	id    int
	cur   *Scenario
	x     *Exec
	nScn  int
}

func (g *Gen) thorough() bool { return g.tier == "thorough" }

func (g *Gen) pick(q, t int) int {
	if g.thorough() {
		return t
	}
	return q
}

func (g *Gen) begin(note string) {
	g.id++
	g.cur = &Scenario{ID: g.id, Prop: g.prop, Note: note}
	g.x = g.out.execs[g.id%len(g.out.execs)]
	g.x.frames, g.x.birth, g.x.groupers, g.x.gbirth, g.x.views = nil, nil, nil, nil, nil
	g.x.scn = g.id
	g.x.viaSlice = false
}

// do executes one step right away and returns the id of the last frame in the family.
func (g *Gen) do(st Step) int {
	if st.Op == "New" {
		lastNew = st
	}
	g.cur.Steps = append(g.cur.Steps, st)
	g.x.step = len(g.cur.Steps)
	g.x.runStep(g.cur, &g.cur.Steps[len(g.cur.Steps)-1])
	return len(g.x.frames) - 1
}

func (g *Gen) end() {
	b, err := json.Marshal(g.cur)
	if err != nil {
		panic(err)
	}
	g.scOut.Write(b)
	g.scOut.WriteByte('\n')
	g.scOut.Flush() // on disk at once: should the process not survive a later scenario, its history is known
	g.nScn++
}

func (g *Gen) frame(i int) qframe.QFrame { return g.x.frames[i] }

func genCmd(prop string, seed int64, tier, scen, trace string, shards int) {
	f, err := os.Create(scen)
	if err != nil {
		panic(err)
	}
	g := &Gen{rng: rand.New(rand.NewSource(seed*7919 + int64(len(prop)) + int64(prop[len(prop)-1])*31)), out: openShards(trace, shards),
		scOut: bufio.NewWriterSize(f, 1<<20), tier: tier, prop: prop}
	fn, ok := generators[prop]
	if !ok {
		fmt.Fprintln(os.Stderr, "no generator for", prop)
		os.Exit(2)
	}
	fn(g)
	g.scOut.Flush()
	f.Close()
	n := g.out.close()
	fmt.Printf("{\"scenarios\":%d,\"events\":%d}\n", g.nScn, n)
}

var generators = map[string]func(*Gen){}

// ---------------------------------------------------------------- value pools

var intPool = []int64{0, 1, 2, 3, -1, -2, 5, 7, 4, 6, math.MinInt64, math.MaxInt64, 1 << 40, -(1 << 33)}
var floatPool = []string{"0", "1", "2.5", "-1.5", "NaN", "-0", "3", "+Inf", "-Inf", "1e300", "5e-324", "0.1", "-2", "bits:0x7ff8000000000001", "bits:0xfff8000000000000", "2"}
var strPool = []string{"", "a", "ab", "b", "A", "aB", "a\ufffdb", "abc", "ba", "\x00", "ÿ", "é", "a,b", "a\"b", "x\ny", " a", "B", "%", "a%", "\ufffd", "\ufeffx"}
var rawStrPool = []string{"\ufffd", "a\ufffdb", "\ufeff", "", "a", "\xff", "\x00\x01", "a\xc3", "\xe2\x80\xa8", "\"", "\\", ",", "\n", " lead", "trail ", "é", "\x7f", "\x1f", "long long long long long long long long"}

func bsp(s string) *BS { b := toBS(s); return &b }

func (g *Gen) intVals(n, spread int) []int64 {
	r := make([]int64, n)
	for i := range r {
		r[i] = intPool[g.rng.Intn(minI(spread, len(intPool)))]
	}
	return r
}

func (g *Gen) floatVals(n, spread int) []string {
	r := make([]string, n)
	for i := range r {
		r[i] = floatPool[g.rng.Intn(minI(spread, len(floatPool)))]
	}
	return r
}

func (g *Gen) boolVals(n int) []bool {
	r := make([]bool, n)
	for i := range r {
		r[i] = g.rng.Intn(2) == 0
	}
	return r
}

func (g *Gen) strVals(n, spread int, nullPct int) []*BS {
	r := make([]*BS, n)
	for i := range r {
		if g.rng.Intn(100) < nullPct {
			continue
		}
		r[i] = bsp(strPool[g.rng.Intn(minI(spread, len(strPool)))])
	}
	return r
}

func minI(a, b int) int {
	if a < b {
		return a
	}
	return b
}

// stdFrame: a frame with columns A,B (int) F,G (float) T,U (bool) S,R (string) E,D (enum, same
// declared table in non-alphabetical order) restricted to the requested names.
var enumTable = []string{"b", "", "ab", "a", "B"}

func (g *Gen) stdNew(n int, cols string, spread int) Step {
	st := Step{Op: "New", Recv: -1, HasOrder: true}
	nullPct := []int{0, 20, 50, 100}[g.rng.Intn(4)]
	for _, c := range cols {
		name := toBS(string(c))
		switch c {
		case 'A', 'B':
			st.Data = append(st.Data, ColData{Name: name, Kind: "int", Ints: g.intVals(n, spread)})
		case 'C': // small non-negative ints (bit tests are specified on these)
			v := make([]int64, n)
			for i := range v {
				v[i] = int64(g.rng.Intn(8))
			}
			st.Data = append(st.Data, ColData{Name: name, Kind: "int", Ints: v})
		case 'F', 'G':
			st.Data = append(st.Data, ColData{Name: name, Kind: "float", Floats: g.floatVals(n, spread)})
		case 'T', 'U':
			st.Data = append(st.Data, ColData{Name: name, Kind: "bool", Bools: g.boolVals(n)})
		case 'S', 'R':
			st.Data = append(st.Data, ColData{Name: name, Kind: "string", Strs: g.strVals(n, spread, nullPct)})
		case 'E', 'D':
			vals := make([]*BS, n)
			for i := range vals {
				if g.rng.Intn(100) < nullPct/2 {
					continue
				}
				vals[i] = bsp(enumTable[g.rng.Intn(len(enumTable))])
			}
			st.Data = append(st.Data, ColData{Name: name, Kind: "string", Strs: vals})
			st.HasEnums = true
			st.Enums = append(st.Enums, EnumDecl{Name: name, Vals: bsList(enumTable)})
		case 'X', 'Y': // derived (non-strict) enum
			st.Data = append(st.Data, ColData{Name: name, Kind: "string", Strs: g.strVals(n, minI(spread, 6), nullPct/2)})
			st.HasEnums = true
			st.Enums = append(st.Enums, EnumDecl{Name: name, Vals: nil})
		}
		st.ColOrder = append(st.ColOrder, name)
	}
	return st
}

// schema of a real frame: names and types, read through the public API (inputs for generation only)
type schema struct {
	names []string
	types []string
	n     int
	err   bool
}

func schemaOf(qf qframe.QFrame) schema {
	if qf.Err != nil {
		return schema{err: true, n: -1}
	}
	s := schema{names: qf.ColumnNames(), n: qf.Len()}
	for _, t := range qf.ColumnTypes() {
		s.types = append(s.types, string(t))
	}
	return s
}

func (s schema) colsOfType(ts ...string) []string {
	r := []string{}
	for i, t := range s.types {
		for _, w := range ts {
			if t == w {
				r = append(r, s.names[i])
			}
		}
	}
	return r
}

func (s schema) typeOf(name string) string {
	for i, n := range s.names {
		if n == name {
			return s.types[i]
		}
	}
	return ""
}

func (g *Gen) oneOf(ss []string) string {
	if len(ss) == 0 {
		return "nosuch"
	}
	return ss[g.rng.Intn(len(ss))]
}

func (g *Gen) subset(ss []string, maxN int) []string {
	p := g.rng.Perm(len(ss))
	k := 0
	if len(ss) > 0 {
		k = 1 + g.rng.Intn(minI(maxN, len(ss)))
	}
	r := []string{}
	for _, i := range p[:k] {
		r = append(r, ss[i])
	}
	return r
}

// arrangedFrames: frames whose row order is EVERY permutation of 4 stored rows - the index covering the
// whole storage, and with stored rows cut away in front and/or behind (Slice) - plus a sample of the
// permutations of 5 and 6 rows (all of 5 in the thorough tier). Fast paths that decide "this index is
// the natural one / contiguous / ascending" from a few of its entries are wrong for some permutation;
// enumerating them all at the smallest size where such a permutation exists finds it. Columns: I int,
// F float (one NaN), B bool, S string (one null), E declared enum (one null), X derived enum, P the
// permutation. fn receives the arranged frame.
func (g *Gen) arrangedFrames(note string, fn func(f int)) {
	for _, n := range []int{4, 5, 6} {
		for _, perm := range permsOf(n) {
			if n == 5 && !g.thorough() && g.rng.Intn(10) != 0 {
				continue
			}
			if n == 6 && g.rng.Intn(g.pick(60, 6)) != 0 {
				continue
			}
			for variant := 0; variant < 4; variant++ {
				if variant > 0 && g.rng.Intn(3) != 0 {
					continue // the full-storage variant always, the others one time in three each
				}
				off := variant % 2 * (1 + g.rng.Intn(2))
				tot := off + n + variant/2
				iv, pv := make([]int64, tot), make([]int64, tot)
				fv := make([]string, tot)
				bv := make([]bool, tot)
				sv, ev, xv := make([]*BS, tot), make([]*BS, tot), make([]*BS, tot)
				for i := 0; i < tot; i++ {
					iv[i], pv[i], fv[i], bv[i] = int64(10*(i+1)), int64(100+i), itoa(i)+".25", i%2 == 0
					sv[i], ev[i], xv[i] = bsp("s"+itoa(i)), bsp([]string{"lo", "mid", "hi"}[i%3]), bsp("x"+itoa(i%4))
				}
				for i, v := range perm {
					pv[off+i] = int64(v)
				}
				fv[off+1], sv[off+2], ev[off+n-1] = "NaN", nil, nil
				g.begin(note)
				f := g.do(Step{Op: "New", Recv: -1, HasOrder: true, ColOrder: bsList([]string{"I", "F", "B", "S", "E", "X", "P"}), HasEnums: true,
					Enums: []EnumDecl{{Name: toBS("E"), Vals: bsList([]string{"hi", "mid", "lo"})}, {Name: toBS("X"), Vals: nil}},
					Data: []ColData{{Name: toBS("I"), Kind: "int", Ints: iv}, {Name: toBS("F"), Kind: "float", Floats: fv}, {Name: toBS("B"), Kind: "bool", Bools: bv},
						{Name: toBS("S"), Kind: "string", Strs: sv}, {Name: toBS("E"), Kind: "string", Strs: ev}, {Name: toBS("X"), Kind: "string", Strs: xv},
						{Name: toBS("P"), Kind: "int", Ints: pv}}})
				if tot != n {
					f = g.do(Step{Op: "Slice", Recv: f, A: off, B: off + n})
				}
				f = g.do(Step{Op: "Sort", Recv: f, Orders: []Order{{Col: toBS("P")}}})
				if g.frame(f).Err == nil {
					fn(f)
				}
				g.end()
			}
		}
	}
}

// leafCatalogue: one leaf of every comparator family for every column type of the arrangedFrames schema
func leafCatalogue() []Clause {
	lf := func(col, cmp string, arg *Val) Clause { return Clause{K: "leaf", Col: toBS(col), CmpK: "str", Cmp: cmp, Arg: arg} }
	fn := func(col, k, sym string, arg *Val) Clause { return Clause{K: "leaf", Col: toBS(col), CmpK: k, Cmp: sym, Arg: arg} }
	iv := func(i int64) *Val { return &Val{T: "int", I: i} }
	sv := func(s string) *Val { return &Val{T: "string", S: toBS(s)} }
	col := func(c string) *Val { return &Val{T: "col", S: toBS(c)} }
	return []Clause{
		lf("I", "=", iv(20)), lf("I", "<", iv(30)), lf("I", ">=", iv(30)), lf("I", "!=", iv(20)),
		lf("I", "in", &Val{T: "ints", L: []Val{{T: "int", I: 20}, {T: "int", I: 40}}}), lf("I", "<", &Val{T: "float", F: "25.5"}),
		lf("I", "<", col("P")), lf("I", ">", col("F")), fn("I", "fn1", "oddI", nil), fn("I", "fn2", "ltII", col("P")), lf("I", "any_bits", iv(4)),
		lf("F", "<", &Val{T: "float", F: "2"}), lf("F", ">=", &Val{T: "float", F: "2.25"}), lf("F", "isnull", nil), lf("F", "isnotnull", nil),
		lf("F", "<", col("I")), fn("F", "fn1", "isNegF", nil), fn("F", "fn2", "ltFF", col("F")),
		lf("B", "=", &Val{T: "bool", B: true}), lf("B", "!=", col("B")), fn("B", "fn1", "NotB", nil),
		lf("S", "=", sv("s1")), lf("S", "<", sv("s2")), lf("S", ">", sv("s1")), lf("S", "isnull", nil), lf("S", "like", sv("s%")), lf("S", "ilike", sv("%S1%")),
		lf("S", "in", &Val{T: "strs", L: []Val{{T: "string", S: toBS("s0")}, {T: "string", S: toBS("s3")}}}), lf("S", "<", col("S")), fn("S", "fn1", "isNilS", nil),
		lf("E", "=", sv("mid")), lf("E", "<", sv("lo")), lf("E", ">=", sv("mid")), lf("E", "isnull", nil), lf("E", "like", sv("%i%")),
		lf("E", "in", &Val{T: "strs", L: []Val{{T: "string", S: toBS("hi")}}}), lf("E", "<=", col("E")), lf("E", "!=", sv("hi")),
		lf("X", "=", sv("x1")), lf("X", "<", sv("x2")), lf("X", "ilike", sv("X%")), lf("X", "isnotnull", nil), fn("X", "fn2", "prefixSS", col("X")),
	}
}

// siblingAdds: several calls that each ADD a column to the same parent - itself the result of adding a
// column, so that its header has room to spare - through every operation that adds columns (Copy,
// WithRowNums, Apply, Eval, Rolling), also on a Slice / Filter / Sort of the parent. None of the results may
// show up in another (persistence re-observes them all after every step).
func (g *Gen) siblingAdds(f int) {
	s := schemaOf(g.frame(f))
	if s.err || len(s.names) < 2 {
		return
	}
	par := g.do(Step{Op: "Copy", Recv: f, Dst: toBS("w0"), Src: toBS(s.names[0])})
	if g.rng.Intn(2) == 0 {
		par = g.do(Step{Op: "WithRowNums", Recv: par, Dst: toBS("w1")})
	}
	sp := schemaOf(g.frame(par))
	if sp.err {
		return
	}
	targets := []int{par, par, par}
	if sp.n >= 2 {
		targets = append(targets, g.do(Step{Op: "Slice", Recv: par, A: 1, B: sp.n}))
		targets = append(targets, g.do(Step{Op: "Sort", Recv: par, Orders: []Order{{Col: toBS(sp.names[0]), Rev: true}}}))
	}
	for i := 0; i < 5; i++ {
		t := targets[g.rng.Intn(len(targets))]
		dst := "s" + itoa(i)
		switch g.rng.Intn(5) {
		case 0:
			g.do(Step{Op: "Copy", Recv: t, Dst: toBS(dst), Src: toBS(g.oneOf(sp.names))})
		case 1:
			g.do(Step{Op: "WithRowNums", Recv: t, Dst: toBS(dst)})
		case 2:
			e := g.genExpr(sp, g.oneOf([]string{"int", "float", "bool", "string"}), 2)
			g.do(Step{Op: "Eval", Recv: t, Dst: toBS(dst), Expr: &e, Ctx: userCtx})
		case 3:
			g.do(Step{Op: "Rolling", Recv: t, Dst: toBS(dst), Src: toBS(g.oneOf(sp.names))})
		default:
			ins := g.randomInstrs(sp, 1, false)
			ins[0].Dst = toBS(dst)
			g.do(Step{Op: "Apply", Recv: t, Instrs: ins})
		}
	}
}
