package main

// Scenario = inputs only: an initial construction followed by operations, each applied to any
// member of the family of frames/groupers produced so far. Scenarios are produced by TLC (emitted
// from the MC specifications) and by the seeded generators in gen_*.go, and are executed on the real
// library by exec.go, which writes the observation trace validated by TLC.

type Val struct {
	T string `json:"t"` // int float bool string pstring nilpstring nil col ints floats strs bools ifaces struct
	I int64  `json:"i,omitempty"`
	F string `json:"f,omitempty"`
	B bool   `json:"b,omitempty"`
	S BS     `json:"s,omitempty"`
	L []Val  `json:"l,omitempty"`
}

type ColData struct {
	Name   BS       `json:"name"`
	Kind   string   `json:"kind"` // int float bool string strs cint cfloat cbool cstring bad
	Ints   []int64  `json:"ints,omitempty"`
	Floats []string `json:"floats,omitempty"`
	Bools  []bool   `json:"bools,omitempty"`
	Strs   []*BS    `json:"strs,omitempty"` // nil entry = null
	Count  int      `json:"count,omitempty"`
}

type EnumDecl struct {
	Name BS   `json:"name"`
	Vals []BS `json:"vals"`
}

type Clause struct {
	K    string   `json:"k"` // leaf and or not null
	Col  BS       `json:"col,omitempty"`
	CmpK string   `json:"cmpk,omitempty"` // str fn1 fn2 bad
	Cmp  string   `json:"cmp,omitempty"`  // comparator name or function symbol
	Arg  *Val     `json:"arg,omitempty"`
	Inv  bool     `json:"inv,omitempty"`
	Subs []Clause `json:"subs,omitempty"`
}

type Order struct {
	Col      BS   `json:"col"`
	Rev      bool `json:"rev,omitempty"`
	NullLast bool `json:"nulllast,omitempty"`
}

type FnRef struct {
	K   string `json:"k"` // const col fn0 fn1 fn2 builtin bad
	Sym string `json:"sym,omitempty"`
	V   *Val   `json:"v,omitempty"`
}

type Instr struct {
	Fn   FnRef `json:"fn"`
	Dst  BS    `json:"dst"`
	Src1 BS    `json:"src1,omitempty"`
	Src2 BS    `json:"src2,omitempty"`
}

type Expr struct {
	K    string `json:"k"` // col const call val bad
	Name BS     `json:"name,omitempty"`
	V    *Val   `json:"v,omitempty"`
	Op   string `json:"op,omitempty"`
	Args []Expr `json:"args,omitempty"`
}

type CtxFn struct {
	Name string `json:"name"`
	Sym  string `json:"sym"`
}

type Agg struct {
	Fn  FnRef `json:"fn"` // builtin (count,sum,...) or aggfn symbol via K="agg"
	Col BS    `json:"col"`
	As  BS    `json:"as,omitempty"`
}

type Step struct {
	Op   string `json:"op"`
	Recv int    `json:"recv"`

	// New
	Data     []ColData  `json:"data,omitempty"`
	HasOrder bool       `json:"hasorder,omitempty"`
	ColOrder []BS       `json:"colorder,omitempty"`
	HasEnums bool       `json:"hasenums,omitempty"`
	Enums    []EnumDecl `json:"enums,omitempty"`

	Clause *Clause `json:"clause,omitempty"`
	Orders []Order `json:"orders,omitempty"`
	Cols   []BS    `json:"cols,omitempty"`
	Null   bool    `json:"null,omitempty"`
	A      int     `json:"a,omitempty"`
	B      int     `json:"b,omitempty"`
	Dst    BS      `json:"dst,omitempty"`
	Src    BS      `json:"src,omitempty"`
	Instrs []Instr `json:"instrs,omitempty"`
	Expr   *Expr   `json:"expr,omitempty"`
	Ctx    []CtxFn `json:"ctx,omitempty"`
	Aggs   []Agg   `json:"aggs,omitempty"`
	Other  int     `json:"other,omitempty"`
	Subs   []Step  `json:"subs,omitempty"` // Concurrent: operations started together on separate goroutines
	Fl     string  `json:"fl,omitempty"` // a float (scenario notation) for FloatFmt
	Rid    BS      `json:"rid,omitempty"` // name of a row-number column the specification may use to identify rows
	Opts   []int   `json:"opts,omitempty"`

	// I/O steps (CSV/JSON/SQL), see exec_io.go
	Doc   BS        `json:"doc,omitempty"`
	Reads []int     `json:"reads,omitempty"`
	Csv   *CsvConf  `json:"csv,omitempty"`
	Fault *FaultPos `json:"fault,omitempty"`
	Sql   *SqlConf  `json:"sql,omitempty"`
	Rs    [][]SqlVal `json:"rs,omitempty"` // result set rows for ReadSQL
}

type Scenario struct {
	ID    int    `json:"id"`
	Prop  string `json:"prop"`
	Note  string `json:"note,omitempty"`
	Steps []Step `json:"steps"`
}

type CsvConf struct {
	EmptyNull     bool       `json:"emptynull,omitempty"`
	IgnoreEmpty   bool       `json:"ignoreempty,omitempty"`
	Delim         int        `json:"delim,omitempty"`
	HasTypes      bool       `json:"hastypes,omitempty"`
	Types         []TypeDecl `json:"types,omitempty"`
	HasEnumVals   bool       `json:"hasenumvals,omitempty"`
	EnumVals      []EnumDecl `json:"enumvals,omitempty"`
	RowCountHint  int        `json:"rowcounthint,omitempty"`
	Headers       []BS       `json:"headers,omitempty"`
	RenameDup     bool       `json:"renamedup,omitempty"`
	MissingAlias  BS         `json:"missingalias,omitempty"`
	EOFWithData   bool       `json:"eofwithdata,omitempty"`
	BufCap        int        `json:"bufcap,omitempty"` // >0: fastcsv-level replay with hook H2
	NoHeaderWrite bool       `json:"noheaderwrite,omitempty"`
	WriteCols     []BS       `json:"writecols,omitempty"`
}

type TypeDecl struct {
	Name BS     `json:"name"`
	Typ  string `json:"typ"`
}

type FaultPos struct {
	Kind string `json:"kind"` // read write driver
	At   int    `json:"at"`   // byte offset / call number
	With bool   `json:"with,omitempty"`
}

type SqlConf struct {
	Table       string `json:"table,omitempty"`
	Escape      int    `json:"escape,omitempty"`
	Incr        bool   `json:"incr,omitempty"`
	Dialect     string `json:"dialect,omitempty"`
	Precision   int    `json:"precision,omitempty"`
	CoerceNames []BS   `json:"coercenames,omitempty"`
	CoerceKinds []int  `json:"coercekinds,omitempty"`
	PresetLast  bool   `json:"presetlast,omitempty"` // the dialect preset is the LAST option given (it only sets escape character and placeholder style)
}
