package main

// Executor: runs scenarios on the real library and writes one trace event per public call.
// It contains no expected values: it records inputs (in the specification's encoding), the observed
// result, digests of re-observations of every earlier family member, and the function tables the
// specification needs for uninterpreted symbols.

import (
	"github.com/tobgu/qframe/config/rolling"
	"github.com/tobgu/qframe/config/csv"
	"bufio"
	"bytes"
	"database/sql/driver"
	"encoding/json"
	"fmt"
	"io"
	"math"
	"os"
	"regexp"
	"runtime/debug"
	"strings"
	"sync/atomic"

	"github.com/tobgu/qframe"
	"github.com/tobgu/qframe/config/eval"
	"github.com/tobgu/qframe/config/groupby"
	"github.com/tobgu/qframe/config/newqf"
	"github.com/tobgu/qframe/types"
)

type Ev = map[string]interface{}

type Exec struct {
	out      *bufio.Writer
	frames   []qframe.QFrame
	birth    []int // digest at birth
	groupers []qframe.Grouper
	gbirth   []int
	views    []func() []Cell

	lastLen        map[string]int   // length of the last complete ToCSV / ToJSON output
	lastStore      [][]driver.Value // rows stored by the last ToSQL (round trip)
	lastStoreNames []string
	scn      int
	step     int
	nEvents  int
	viaSlice bool
	cur      *Scenario
	optScn   int
	csvOpts  map[string][]csv.ConfigFunc
	enumMaps map[string]map[string][]string
}

func NewExec(w io.Writer) *Exec {
	return &Exec{out: bufio.NewWriterSize(w, 1<<20)}
}

func (x *Exec) emit(ev Ev) {
	b, err := json.Marshal(ev)
	if err != nil {
		panic(err)
	}
	x.out.Write(b)
	x.out.WriteByte('\n')
	x.nEvents++
}

func (x *Exec) Flush() { x.out.Flush() }

// safeObserve: a frame whose views cannot be read (e.g. columns shorter than Len()) is reported as
// an observation with len = -4, which no specification result matches.
func safeObserve(qf qframe.QFrame, viaSlice bool) (o Obs) {
	defer func() {
		if r := recover(); r != nil {
			o = Obs{Len: -4, Names: []BS{}, Types: []string{}, Cols: [][]Cell{}}
		}
	}()
	return observe(qf, viaSlice)
}

func (x *Exec) addFrame(qf qframe.QFrame) (int, Obs, int) {
	o := safeObserve(qf, x.viaSlice)
	d := digest(o)
	x.frames = append(x.frames, qf)
	x.birth = append(x.birth, d)
	return len(x.frames) - 1, o, d
}

func grouperDigest(g qframe.Grouper) int {
	if g.Err != nil {
		return 1
	}
	qfs, err := g.QFrames()
	if err != nil {
		return 2
	}
	h := 17
	for _, q := range qfs {
		h = (h*31 + digest(safeObserve(q, false))) & 0x3fffffff
	}
	return h
}

// reobserve re-inspects every member of the family except those born in this step.
func (x *Exec) reobserve(nOldFrames, nOldGroupers int) ([][]int, [][]int) {
	r := [][]int{}
	for i := 0; i < nOldFrames; i++ {
		r = append(r, []int{i, digest(safeObserve(x.frames[i], x.viaSlice))})
	}
	g := [][]int{}
	for i := 0; i < nOldGroupers; i++ {
		g = append(g, []int{i, grouperDigest(x.groupers[i])})
	}
	return r, g
}

// ---------------------------------------------------------------- value conversion

func (v *Val) goVal() interface{} {
	switch v.T {
	case "int":
		return int(v.I)
	case "float":
		return parseFloat(v.F)
	case "bool":
		return v.B
	case "string":
		return v.S.String()
	case "pstring":
		s := v.S.String()
		return &s
	case "nilpstring":
		return (*string)(nil)
	case "nil":
		return nil
	case "col":
		return types.ColumnName(v.S.String())
	case "ints":
		r := make([]int, len(v.L))
		for i, e := range v.L {
			r[i] = int(e.I)
		}
		return r
	case "floats":
		r := make([]float64, len(v.L))
		for i, e := range v.L {
			r[i] = parseFloat(e.F)
		}
		return r
	case "strs":
		r := make([]string, len(v.L))
		for i, e := range v.L {
			r[i] = e.S.String()
		}
		return r
	case "bools":
		r := make([]bool, len(v.L))
		for i, e := range v.L {
			r[i] = e.B
		}
		return r
	case "ifaces":
		r := make([]interface{}, len(v.L))
		for i := range v.L {
			r[i] = v.L[i].goVal()
		}
		return r
	case "struct":
		return struct{ X int }{1}
	case "int32":
		return int32(v.I)
	}
	panic("goVal: unknown value kind " + v.T)
}

func truncCell(f float64) Cell {
	// Go's int(float64) is the documented conversion for float arguments to int columns; it is
	// only defined when the truncated value is representable.
	if math.IsNaN(f) || f >= 9.2e18 || f <= -9.2e18 {
		return nullCell
	}
	return encInt(int(f))
}

// tla renders a scenario value in the specification's encoding.
func (v *Val) tla() Ev {
	e := Ev{"t": v.T, "c": nullCell, "ci": nullCell, "s": BS{}, "l": []Cell{}, "li": []Cell{}, "lt": []string{}}
	switch v.T {
	case "int":
		e["c"] = encInt(int(v.I))
		e["ci"] = e["c"]
	case "float":
		f := parseFloat(v.F)
		e["c"] = encFloat(f)
		e["ci"] = truncCell(f)
		if math.IsNaN(f) {
			e["t"] = "nan"
		}
	case "bool":
		e["c"] = encBool(v.B)
	case "string", "pstring":
		e["c"] = encStr(v.S.String())
	case "col":
		e["s"] = v.S
	case "ints", "floats", "strs", "bools", "ifaces":
		l, li, lt := []Cell{}, []Cell{}, []string{}
		for i := range v.L {
			s := v.L[i].tla()
			l = append(l, s["c"].(Cell))
			li = append(li, s["ci"].(Cell))
			lt = append(lt, s["t"].(string))
		}
		e["l"], e["li"], e["lt"] = l, li, lt
	}
	return e
}

// ---------------------------------------------------------------- reading a validated frame

func colType(qf qframe.QFrame, name string) string {
	if qf.Err != nil {
		return ""
	}
	names := qf.ColumnNames()
	typs := qf.ColumnTypes()
	for i, n := range names {
		if n == name {
			return string(typs[i])
		}
	}
	return ""
}

func fnType(t string) string {
	if t == "enum" {
		return "string"
	}
	return t
}

// colVals reads a column of an (already validated) frame through its view, in frame order.
func colVals(qf qframe.QFrame, name string) []GV {
	r := []GV{}
	switch colType(qf, name) {
	case "int":
		v := qf.MustIntView(name)
		for i := 0; i < v.Len(); i++ {
			r = append(r, v.ItemAt(i))
		}
	case "float":
		v := qf.MustFloatView(name)
		for i := 0; i < v.Len(); i++ {
			r = append(r, v.ItemAt(i))
		}
	case "bool":
		v := qf.MustBoolView(name)
		for i := 0; i < v.Len(); i++ {
			r = append(r, v.ItemAt(i))
		}
	case "string":
		v := qf.MustStringView(name)
		for i := 0; i < v.Len(); i++ {
			r = append(r, v.ItemAt(i))
		}
	case "enum":
		v := qf.MustEnumView(name)
		for i := 0; i < v.Len(); i++ {
			r = append(r, v.ItemAt(i))
		}
	}
	return r
}

// ---------------------------------------------------------------- clauses

func (c *Clause) build() qframe.FilterClause {
	switch c.K {
	case "leaf":
		f := qframe.Filter{Column: c.Col.String(), Inverse: c.Inv}
		switch c.CmpK {
		case "str":
			f.Comparator = c.Cmp
		case "fn1", "fn2":
			f.Comparator = fnReg[c.Cmp].Fn
		default:
			f.Comparator = 42
		}
		if c.Arg != nil {
			f.Arg = c.Arg.goVal()
		}
		return f
	case "and":
		subs := make([]qframe.FilterClause, len(c.Subs))
		for i := range c.Subs {
			subs[i] = c.Subs[i].build()
		}
		return qframe.And(subs...)
	case "or":
		subs := make([]qframe.FilterClause, len(c.Subs))
		for i := range c.Subs {
			subs[i] = c.Subs[i].build()
		}
		return qframe.Or(subs...)
	case "not":
		return qframe.Not(c.Subs[0].build())
	case "null":
		return qframe.Null()
	}
	panic("unknown clause kind " + c.K)
}

// tla renders the clause and fills predicate tables / conversion tables from the receiver.
func (c *Clause) tla(qf qframe.QFrame) Ev {
	switch c.K {
	case "leaf":
		e := Ev{"k": "leaf", "col": c.Col, "cmpk": c.CmpK, "cmp": c.Cmp, "inv": b2i(c.Inv), "tbl": [][]Cell{}, "argt": "", "rest": "", "arity": 0, "conv": [][]Cell{}, "rx": [][]interface{}{}}
		arg := &Val{T: "nil"}
		if c.Arg != nil {
			arg = c.Arg
		}
		e["arg"] = arg.tla()
		ct := colType(qf, c.Col.String())
		if c.CmpK == "fn1" || c.CmpK == "fn2" {
			fe := fnReg[c.Cmp]
			e["argt"], e["rest"], e["arity"] = fe.ArgT, fe.ResT, fe.Arity
			wantArity := 1
			if c.CmpK == "fn2" {
				wantArity = 2
			}
			if fe.Arity != wantArity || fe.ResT != "bool" {
				// not a predicate of the required shape: nothing to tabulate, the call must fail
			} else if ct != "" && fnType(ct) == fe.ArgT {
				t := newTable(c.Cmp)
				if c.CmpK == "fn1" {
					for _, v := range colVals(qf, c.Col.String()) {
						t.add([]GV{v})
					}
				} else if arg.T == "col" {
					at := colType(qf, arg.S.String())
					if at != "" && fnType(at) == fe.ArgT {
						a := colVals(qf, c.Col.String())
						b := colVals(qf, arg.S.String())
						for i := range a {
							t.add([]GV{a[i], b[i]})
						}
					}
				}
				e["tbl"] = t.Rows
			}
			// int <-> float column pairs are compared as floats (the int column is promoted)
			if c.CmpK == "fn2" && arg.T == "col" && fe.ArgT == "float" && fe.Arity == 2 && fe.ResT == "bool" {
				at := colType(qf, arg.S.String())
				if (ct == "int" && at == "float") || (ct == "float" && at == "int") {
					t := newTable(c.Cmp)
					a := promote(colVals(qf, c.Col.String()))
					b := promote(colVals(qf, arg.S.String()))
					for i := range a {
						t.add([]GV{a[i], b[i]})
					}
					e["tbl"] = t.Rows
				}
			}
		}
		if c.CmpK == "str" && (c.Cmp == "like" || c.Cmp == "ilike") && arg.T == "string" && (ct == "string" || ct == "enum") {
			likeTables(e, c.Cmp == "ilike", arg.S.String(), colVals(qf, c.Col.String()))
		}
		if arg.T == "col" {
			// int <-> float column comparison promotes the int column: log Go's conversion.
			at := colType(qf, arg.S.String())
			if ct == "int" && at == "float" {
				e["conv"] = convTable(colVals(qf, c.Col.String()))
			} else if ct == "float" && at == "int" {
				e["conv"] = convTable(colVals(qf, arg.S.String()))
			}
		}
		return e
	case "null":
		return Ev{"k": "null"}
	default:
		subs := make([]Ev, len(c.Subs))
		for i := range c.Subs {
			subs[i] = c.Subs[i].tla(qf)
		}
		return Ev{"k": c.K, "subs": subs}
	}
}

// likeTables logs the two library-external references the like/ilike rules are stated in terms of
// (C18): Unicode upper-casing (strings.ToUpper of the standard library) of the pattern and of every
// distinct cell, and - for patterns with regular-expression metacharacters - the verdict of Go's
// regexp package for every candidate way of anchoring the pattern (the specification picks the
// one the property prescribes; the harness does not know which).
func likeTables(e Ev, ci bool, pat string, vals []GV) {
	distinct := []string{}
	seen := map[string]bool{}
	for _, v := range vals {
		if p := v.(*string); p != nil && !seen[*p] {
			seen[*p] = true
			distinct = append(distinct, *p)
		}
	}
	if ci {
		rows := [][]Cell{{encStr(pat), encStr(strings.ToUpper(pat))}}
		for _, d := range distinct {
			if d != pat {
				rows = append(rows, []Cell{encStr(d), encStr(strings.ToUpper(d))})
			}
		}
		e["tbl"] = rows
	}
	if regexp.QuoteMeta(pat) == pat {
		return
	}
	bodies := map[string]bool{pat: true}
	if strings.HasPrefix(pat, "%") {
		bodies[pat[1:]] = true
	}
	if strings.HasSuffix(pat, "%") {
		bodies[pat[:len(pat)-1]] = true
		if strings.HasPrefix(pat, "%") && len(pat) >= 2 {
			bodies[pat[1:len(pat)-1]] = true
		}
	}
	rx := [][]interface{}{}
	cellsPlus := append([]string{""}, distinct...)
	for body := range bodies {
		for _, pre := range []string{"", "^"} {
			for _, suf := range []string{"", "$"} {
				for _, fl := range []string{"", "(?i)"} {
					text := fl + pre + body + suf
					r, err := regexp.Compile(text)
					for _, cstr := range cellsPlus {
						m := 2
						if err == nil {
							m = b2i(r.MatchString(cstr))
						}
						rx = append(rx, []interface{}{toBS(text), toBS(cstr), m})
					}
				}
			}
		}
	}
	e["rx"] = rx
}

func promote(vals []GV) []GV {
	r := make([]GV, len(vals))
	for i, v := range vals {
		if iv, ok := v.(int); ok {
			r[i] = float64(iv)
		} else {
			r[i] = v
		}
	}
	return r
}

func convTable(vals []GV) [][]Cell {
	rows := [][]Cell{}
	seen := map[int]bool{}
	for _, v := range vals {
		i := v.(int)
		if !seen[i] {
			seen[i] = true
			rows = append(rows, []Cell{encInt(i), encFloat(float64(i))})
		}
	}
	return rows
}

func b2i(b bool) int {
	if b {
		return 1
	}
	return 0
}

// ---------------------------------------------------------------- New

func (d *ColData) goData() interface{} {
	switch d.Kind {
	case "int":
		r := make([]int, len(d.Ints))
		for i, v := range d.Ints {
			r[i] = int(v)
		}
		return r
	case "float":
		r := make([]float64, len(d.Floats))
		for i, v := range d.Floats {
			r[i] = parseFloat(v)
		}
		return r
	case "bool":
		r := make([]bool, len(d.Bools))
		copy(r, d.Bools)
		return r
	case "string":
		r := make([]*string, len(d.Strs))
		for i, v := range d.Strs {
			if v != nil {
				s := v.String()
				r[i] = &s
			}
		}
		return r
	case "strs":
		r := make([]string, len(d.Strs))
		for i, v := range d.Strs {
			if v != nil {
				r[i] = v.String()
			}
		}
		return r
	case "cint":
		return qframe.ConstInt{Val: int(d.Ints[0]), Count: d.Count}
	case "cfloat":
		return qframe.ConstFloat{Val: parseFloat(d.Floats[0]), Count: d.Count}
	case "cbool":
		return qframe.ConstBool{Val: d.Bools[0], Count: d.Count}
	case "cstring":
		var p *string
		if d.Strs[0] != nil {
			s := d.Strs[0].String()
			p = &s
		}
		return qframe.ConstString{Val: p, Count: d.Count}
	case "bad":
		return []int32{1, 2}
	}
	panic("unknown data kind " + d.Kind)
}

func (d *ColData) tla() Ev {
	cells := []Cell{}
	kind := d.Kind
	switch d.Kind {
	case "int", "cint":
		for _, v := range d.Ints {
			cells = append(cells, encInt(int(v)))
		}
	case "float", "cfloat":
		for _, v := range d.Floats {
			cells = append(cells, encFloat(parseFloat(v)))
		}
	case "bool", "cbool":
		for _, v := range d.Bools {
			cells = append(cells, encBool(v))
		}
	case "string", "cstring":
		for _, v := range d.Strs {
			if v == nil {
				cells = append(cells, nullCell)
			} else {
				cells = append(cells, encStr(v.String()))
			}
		}
	case "strs":
		kind = "string"
		for _, v := range d.Strs {
			if v == nil {
				cells = append(cells, encStr(""))
			} else {
				cells = append(cells, encStr(v.String()))
			}
		}
	}
	return Ev{"name": d.Name, "kind": kind, "cells": cells, "count": d.Count}
}

func enumsTla(ee []EnumDecl) []Ev {
	r := []Ev{}
	for _, e := range ee {
		vals := e.Vals
		if vals == nil {
			vals = []BS{}
		}
		r = append(r, Ev{"name": e.Name, "vals": vals})
	}
	return r
}

func bsOrEmpty(b []BS) []BS {
	if b == nil {
		return []BS{}
	}
	return b
}

func strList(bs []BS) []string {
	r := make([]string, len(bs))
	for i, b := range bs {
		r[i] = b.String()
	}
	return r
}

// ---------------------------------------------------------------- instructions / expressions

func (f *FnRef) goFn() interface{} {
	switch f.K {
	case "const", "col":
		return f.V.goVal()
	case "fn0", "fn1", "fn2", "agg":
		return fnReg[f.Sym].Fn
	case "builtin":
		return f.Sym
	}
	return struct{ Y string }{"bad"}
}

func (f *FnRef) tla() Ev {
	e := Ev{"k": f.K, "sym": f.Sym, "argt": "", "rest": "", "v": (&Val{T: "nil"}).tla()}
	if f.V != nil {
		e["v"] = f.V.tla()
	}
	if fe, ok := fnReg[f.Sym]; ok && f.K != "builtin" {
		e["argt"], e["rest"] = fe.ArgT, fe.ResT
	}
	return e
}

func instrsGo(ins []Instr) []qframe.Instruction {
	r := make([]qframe.Instruction, len(ins))
	for i, in := range ins {
		r[i] = qframe.Instruction{Fn: in.Fn.goFn(), DstCol: in.Dst.String(), SrcCol1: in.Src1.String(), SrcCol2: in.Src2.String()}
	}
	return r
}

// refCols is the harness' scratch record of column values used ONLY to enumerate the argument
// tuples for which function tables must be filled (DESIGN §3.2). It never decides a verdict: a
// wrong value here leads to a table miss, which the specification reports as a harness error.
type refCols struct {
	vals map[string][]GV
	typ  map[string]string
	n    int
}

func newRefCols(qf qframe.QFrame) *refCols {
	r := &refCols{vals: map[string][]GV{}, typ: map[string]string{}}
	if qf.Err != nil {
		return r
	}
	r.n = qf.Len()
	names := qf.ColumnNames()
	for _, n := range names {
		r.typ[n] = colType(qf, n)
		r.vals[n] = colVals(qf, n)
	}
	return r
}

func constGV(v *Val) (GV, string, bool) {
	switch v.T {
	case "int":
		return int(v.I), "int", true
	case "float":
		f := parseFloat(v.F)
		if f == 0 {
			f = 0 // a constant is reproduced up to the sign of zero (Unx in Values.tla)
		}
		return f, "float", true
	case "bool":
		return v.B, "bool", true
	case "string", "pstring":
		s := v.S.String()
		return &s, "string", true
	case "nilpstring", "nil":
		return (*string)(nil), "string", true
	}
	return nil, "", false
}

type tableSet struct {
	m     map[string]*Table
	order []string
}

func newTableSet() *tableSet { return &tableSet{m: map[string]*Table{}} }
func (ts *tableSet) get(sym string) *Table {
	if t, ok := ts.m[sym]; ok {
		return t
	}
	t := newTable(sym)
	ts.m[sym] = t
	ts.order = append(ts.order, sym)
	return t
}
func (ts *tableSet) tla() []*Table {
	r := []*Table{}
	for _, s := range ts.order {
		r = append(r, ts.m[s])
	}
	return r
}

// applyRef walks the instructions over the scratch columns to fill the tables. rows restricts the
// rows for which functions are evaluated (FilteredApply), nil = all.
func applyRef(rc *refCols, ins []Instr, ts *tableSet, mask []bool) {
	active := func(i int) bool { return mask == nil || mask[i] }
	for _, in := range ins {
		dst := in.Dst.String()
		switch in.Fn.K {
		case "const":
			if gv, t, ok := constGV(in.Fn.V); ok && in.Src1 == nil {
				col := make([]GV, rc.n)
				for i := range col {
					col[i] = gv
				}
				rc.vals[dst], rc.typ[dst] = col, t
				continue
			}
			return
		case "col":
			src := in.Fn.V.S.String()
			if _, ok := rc.vals[src]; !ok {
				return
			}
			rc.vals[dst], rc.typ[dst] = rc.vals[src], rc.typ[src]
		case "fn0":
			fe := fnReg[in.Fn.Sym]
			if in.Src1 != nil {
				return
			}
			t := ts.get(in.Fn.Sym)
			col := make([]GV, rc.n)
			for i := range col {
				col[i] = t.add([]GV{})
			}
			rc.vals[dst], rc.typ[dst] = col, fe.ResT
		case "fn1", "builtin":
			sym := in.Fn.Sym
			fe, ok := fnReg[sym]
			s1, ok1 := rc.vals[in.Src1.String()]
			if !ok || !ok1 || in.Src2 != nil || fnType(rc.typ[in.Src1.String()]) != fe.ArgT || fe.Arity != 1 {
				return
			}
			t := ts.get(sym)
			col := make([]GV, rc.n)
			for i := range col {
				if active(i) {
					col[i] = t.add([]GV{s1[i]})
				} else {
					col[i] = zeroGV(fe.ResT)
				}
			}
			rt := fe.ResT
			if in.Fn.K == "builtin" {
				rt = rc.typ[in.Src1.String()]
			}
			rc.vals[dst], rc.typ[dst] = col, rt
		case "fn2":
			fe := fnReg[in.Fn.Sym]
			s1, ok1 := rc.vals[in.Src1.String()]
			s2, ok2 := rc.vals[in.Src2.String()]
			if !ok1 || !ok2 || fe.Arity != 2 || fnType(rc.typ[in.Src1.String()]) != fe.ArgT || rc.typ[in.Src1.String()] != rc.typ[in.Src2.String()] {
				return
			}
			t := ts.get(in.Fn.Sym)
			col := make([]GV, rc.n)
			for i := range col {
				if active(i) {
					col[i] = t.add([]GV{s1[i], s2[i]})
				} else {
					col[i] = zeroGV(fe.ResT)
				}
			}
			rc.vals[dst], rc.typ[dst] = col, fe.ResT
		default:
			return
		}
	}
}

// enumUpperRef: the built-in ToUpper on an enum column rewrites the column's value table, which may hold
// strings that no cell shows (declared values, values of rows filtered away). The upper-casing table
// therefore also gets every string the scenario's New steps mention, and their upper-cased forms.
func (x *Exec) enumUpperRef(ins []Instr, ts *tableSet) {
	use := false
	for _, in := range ins {
		if in.Fn.K == "builtin" && in.Fn.Sym == "ToUpper" {
			use = true
		}
	}
	if !use || x.cur == nil {
		return
	}
	t := ts.get("ToUpper")
	add := func(s string) {
		u := t.add([]GV{&s})
		if p, ok := u.(*string); ok && p != nil {
			t.add([]GV{p})
		}
	}
	for i := range x.cur.Steps {
		st := &x.cur.Steps[i]
		if st.Op != "New" {
			continue
		}
		for _, d := range st.Data {
			for _, v := range d.Strs {
				if v != nil {
					add(v.String())
				}
			}
		}
		for _, e := range st.Enums {
			for _, v := range e.Vals {
				add(v.String())
			}
		}
	}
}

func zeroGV(t string) GV {
	switch t {
	case "int":
		return 0
	case "float":
		return 0.0
	case "bool":
		return false
	}
	return (*string)(nil)
}

func instrsTla(ins []Instr) []Ev {
	r := []Ev{}
	for _, in := range ins {
		r = append(r, Ev{"fn": in.Fn.tla(), "dst": in.Dst, "src1": bsOr(in.Src1), "src2": bsOr(in.Src2)})
	}
	return r
}

func bsOr(b BS) BS {
	if b == nil {
		return BS{}
	}
	return b
}

// Default evaluation context as documented by eval.NewDefaultCtx: (operand type, arity, name) -> symbol.
var defaultCtx = map[string]string{
	"float/1/abs": "absF", "float/1/str": "StrF", "float/1/int": "IntF",
	"float/2/+": "PlusF", "float/2/-": "MinusF", "float/2/*": "MulF", "float/2//": "DivF",
	"int/1/abs": "AbsI", "int/1/str": "StrI", "int/1/bool": "BoolI", "int/1/float": "FloatI",
	"int/2/+": "PlusI", "int/2/-": "MinusI", "int/2/*": "MulI", "int/2//": "DivI",
	"bool/1/!": "NotB", "bool/1/str": "StrB", "bool/1/int": "IntB",
	"bool/2/&": "AndB", "bool/2/|": "OrB", "bool/2/!=": "XorB", "bool/2/nand": "NandB",
	"string/1/upper": "UpperS", "string/1/lower": "LowerS", "string/1/str": "StrS", "string/1/len": "LenS",
	"string/2/+": "ConcatS",
}

func (e *Expr) build() interface{} {
	switch e.K {
	case "col":
		return types.ColumnName(e.Name.String())
	case "const":
		return e.V.goVal()
	case "call":
		args := make([]interface{}, len(e.Args))
		for i := range e.Args {
			args[i] = e.Args[i].build()
		}
		return qframe.Expr(e.Op, args...)
	case "val":
		return qframe.Val(e.Args[0].build())
	}
	return []interface{}{1, 2, 3, 4}
}

func (e *Expr) tla() Ev {
	r := Ev{"k": e.K, "name": bsOr(e.Name), "op": e.Op, "v": (&Val{T: "nil"}).tla(), "args": []Ev{}}
	if e.V != nil {
		r["v"] = e.V.tla()
	}
	args := []Ev{}
	for i := range e.Args {
		args = append(args, e.Args[i].tla())
	}
	r["args"] = args
	return r
}

// evalRef enumerates argument tuples for the expression under the documented semantics (left fold,
// operands in the order written, lookup by name/arity/type of the first operand).
func evalRef(rc *refCols, e *Expr, ctx map[string]string, ts *tableSet) ([]GV, string, bool) {
	switch e.K {
	case "col":
		v, ok := rc.vals[e.Name.String()]
		return v, rc.typ[e.Name.String()], ok
	case "const":
		gv, t, ok := constGV(e.V)
		if !ok {
			return nil, "", false
		}
		col := make([]GV, rc.n)
		for i := range col {
			col[i] = gv
		}
		return col, t, true
	case "val":
		return evalRef(rc, &e.Args[0], ctx, ts)
	case "call":
		if len(e.Args) == 0 {
			return nil, "", false
		}
		acc, at, ok := evalRef(rc, &e.Args[0], ctx, ts)
		if !ok {
			return nil, "", false
		}
		if len(e.Args) == 1 {
			sym, ok := ctx[fnType(at)+"/1/"+e.Op]
			if !ok {
				return nil, "", false
			}
			fe := fnReg[sym]
			t := ts.get(sym)
			col := make([]GV, rc.n)
			for i := range col {
				col[i] = t.add([]GV{acc[i]})
			}
			return col, fe.ResT, true
		}
		for k := 1; k < len(e.Args); k++ {
			rhs, rt, ok := evalRef(rc, &e.Args[k], ctx, ts)
			if !ok {
				return nil, "", false
			}
			sym, ok := ctx[fnType(at)+"/2/"+e.Op]
			if !ok || fnType(at) != fnType(rt) || at != rt {
				return nil, "", false
			}
			fe := fnReg[sym]
			t := ts.get(sym)
			col := make([]GV, rc.n)
			for i := range col {
				col[i] = t.add([]GV{acc[i], rhs[i]})
			}
			acc = col
			at = fe.ResT
			if fnType(rt) == "string" {
				at = "string"
			}
		}
		return acc, at, true
	}
	return nil, "", false
}

// ---------------------------------------------------------------- running

func (x *Exec) RunScenario(sc *Scenario) {
	x.frames, x.birth, x.groupers, x.gbirth, x.views = nil, nil, nil, nil, nil
	x.scn = sc.ID
	x.viaSlice = false
	for i := range sc.Steps {
		x.step = i + 1
		if sc.Steps[i].Op == "HashGroup" {
			x.hashGroup(sc, &sc.Steps[i])
			continue
		}
		if sc.Steps[i].Op == "ConcModel" {
			x.concModel(sc, &sc.Steps[i])
			continue
		}
		if sc.Steps[i].Op == "FloatJSONBatch" {
			x.floatJSONBatch(sc, &sc.Steps[i])
			continue
		}
		x.runStep(sc, &sc.Steps[i])
	}
}

func (x *Exec) frame(i int) qframe.QFrame {
	if i < 0 || i >= len(x.frames) {
		panic(fmt.Sprintf("scenario %d step %d: no frame %d", x.scn, x.step, i))
	}
	return x.frames[i]
}

func (x *Exec) runStep(sc *Scenario, st *Step) {
	if st.Op == "Concurrent" {
		x.runConcurrent(sc, st)
		return
	}
	nF, nG, nV := len(x.frames), len(x.groupers), len(x.views)
	ev := x.runOne(sc, st)
	x.finishEvent(ev, nF, nG, nV)
	x.emit(ev)
}

// runOne executes one operation under recover and returns its event (without re-observations).
func (x *Exec) runOne(sc *Scenario, st *Step) Ev {
	nF := len(x.frames)
	ev := Ev{"scn": x.scn, "prop": sc.Prop, "i": x.step, "op": st.Op, "recv": st.Recv, "out": -1, "pan": 0,
		"obs": emptyObs, "dig": 0, "a": Ev{"_": 0}, "race": 0, "conc": 0, "ambjudge": 0}
	for _, o := range st.Opts {
		if o == 77 { // judge this step also on a frame with an ambiguous enum table (Judge.tla AmbFrame; finding D21)
			ev["ambjudge"] = 1
		}
		if o == 78 { // Equals that must hold by a law (results of one operation on a frame and on its rebuilt copy)
			ev["must"] = 1
		}
	}
	calls0 := atomic.LoadInt64(&callCount)
	x.cur = sc
	watchStep(sc, x.scn, x.step)
	defer unwatchStep()
	func() {
		defer func() {
			ev["calls"] = int(atomic.LoadInt64(&callCount) - calls0)
			if r := recover(); r != nil {
				ev["pan"] = 1
				ev["panmsg"] = fmt.Sprint(r)
				if os.Getenv("VERIF_DEBUG") != "" {
					fmt.Fprintf(os.Stderr, "panic in scenario %d step %d: %v\n%s\n", x.scn, x.step, r, debug.Stack())
				}
				// a panicking operation still yields a family member so that ids stay aligned on replay
				if _, isFrameOp := frameOps[st.Op]; isFrameOp && len(x.frames) == nF {
					x.frames = append(x.frames, qframe.QFrame{Err: fmt.Errorf("panic")})
					x.birth = append(x.birth, 0)
					ev["out"] = len(x.frames) - 1
				}
			}
		}()
		x.dispatch(st, ev)
	}()
	return ev
}

func (x *Exec) finishEvent(ev Ev, nF, nG, nV int) {
	ev["reobs"], ev["greobs"] = x.reobserve(nF, nG)
	vre := [][]int{}
	for i := 0; i < nV; i++ {
		d := -1
		func() {
			defer func() { recover() }()
			d = cellsDigest(x.views[i]())
		}()
		vre = append(vre, []int{i, d})
	}
	ev["vreobs"] = vre
}

var frameOps = map[string]bool{"New": true, "Filter": true, "Sort": true, "Distinct": true, "Select": true, "Drop": true,
	"Slice": true, "Copy": true, "Apply": true, "FilteredApply": true, "WithRowNums": true, "Eval": true, "Aggregate": true,
	"Rebuild": true, "ReadCSV": true, "ReadJSON": true, "ReadSQL": true, "Append": true, "Rolling": true}

func (x *Exec) result(ev Ev, qf qframe.QFrame) {
	id, o, d := x.addFrame(qf)
	ev["out"], ev["obs"], ev["dig"] = id, o, d
}

func (x *Exec) dispatch(st *Step, ev Ev) {
	switch st.Op {
	case "New":
		data := map[string]types.DataSlice{}
		cols := []Ev{}
		for i := range st.Data {
			data[st.Data[i].Name.String()] = st.Data[i].goData()
			cols = append(cols, st.Data[i].tla())
		}
		var fns []newqf.ConfigFunc
		if st.HasOrder {
			fns = append(fns, newqf.ColumnOrder(strList(st.ColOrder)...))
		}
		if st.HasEnums {
			fns = append(fns, newqf.Enums(x.sharedEnumMap(st.Enums)))
		}
		ev["a"] = Ev{"data": cols, "hasorder": b2i(st.HasOrder), "order": bsOrEmpty(st.ColOrder), "hasenums": b2i(st.HasEnums), "enums": enumsTla(st.Enums)}
		x.result(ev, qframe.New(data, fns...))
	case "Filter":
		qf := x.frame(st.Recv)
		ev["a"] = Ev{"clause": st.Clause.tla(qf)}
		x.result(ev, qf.Filter(st.Clause.build()))
	case "Sort":
		qf := x.frame(st.Recv)
		os := make([]qframe.Order, len(st.Orders))
		oe := []Ev{}
		for i, o := range st.Orders {
			os[i] = qframe.Order{Column: o.Col.String(), Reverse: o.Rev, NullLast: o.NullLast}
			oe = append(oe, Ev{"col": o.Col, "rev": b2i(o.Rev), "nulllast": b2i(o.NullLast)})
		}
		ev["a"] = Ev{"orders": oe, "rid": bsOr(st.Rid)}
		x.result(ev, qf.Sort(os...))
	case "Distinct":
		qf := x.frame(st.Recv)
		ev["a"] = Ev{"cols": bsOrEmpty(st.Cols), "null": b2i(st.Null), "rid": bsOr(st.Rid)}
		x.result(ev, qf.Distinct(x.groupOpts(st)...))
	case "Select":
		qf := x.frame(st.Recv)
		ev["a"] = Ev{"cols": bsOrEmpty(st.Cols)}
		x.result(ev, qf.Select(strList(st.Cols)...))
	case "Drop":
		qf := x.frame(st.Recv)
		ev["a"] = Ev{"cols": bsOrEmpty(st.Cols)}
		x.result(ev, qf.Drop(strList(st.Cols)...))
	case "Slice":
		qf := x.frame(st.Recv)
		ev["a"] = Ev{"a": st.A, "b": st.B}
		x.result(ev, qf.Slice(st.A, st.B))
	case "Copy":
		qf := x.frame(st.Recv)
		ev["a"] = Ev{"dst": bsOr(st.Dst), "src": bsOr(st.Src)}
		x.result(ev, qf.Copy(st.Dst.String(), st.Src.String()))
	case "Rolling":
		// A: window size (0 = not configured), B = 1: an interval function is configured, Fl: position ("" = not configured)
		qf := x.frame(st.Recv)
		var cf []rolling.ConfigFunc
		if st.A != 0 {
			cf = append(cf, rolling.WindowSize(st.A))
		}
		if st.B == 1 {
			cf = append(cf, rolling.IntervalFunction(st.Src.String(), func(a, b int) bool { return b < a+2 }))
		}
		if st.Fl != "" {
			cf = append(cf, rolling.Position(st.Fl))
		}
		ev["a"] = Ev{"dst": bsOr(st.Dst), "src": bsOr(st.Src), "window": st.A, "interval": st.B, "pos": toBS(st.Fl)}
		x.result(ev, qf.Rolling("sum", st.Dst.String(), st.Src.String(), cf...))
	case "Apply":
		qf := x.frame(st.Recv)
		ts := newTableSet()
		applyRef(newRefCols(qf), st.Instrs, ts, nil)
		x.enumUpperRef(st.Instrs, ts)
		ev["a"] = Ev{"instrs": instrsTla(st.Instrs), "tbls": ts.tla()}
		x.result(ev, qf.Apply(instrsGo(st.Instrs)...))
	case "FilteredApply":
		qf := x.frame(st.Recv)
		ts := newTableSet()
		// tables are filled for ALL rows - a superset of the rows the clause selects; which rows the
		// functions are applied to is decided by the specification alone (an unused entry is harmless)
		applyRef(newRefCols(qf), st.Instrs, ts, nil)
		ev["a"] = Ev{"clause": st.Clause.tla(qf), "instrs": instrsTla(st.Instrs), "tbls": ts.tla()}
		x.result(ev, qf.FilteredApply(st.Clause.build(), instrsGo(st.Instrs)...))
	case "WithRowNums":
		qf := x.frame(st.Recv)
		ev["a"] = Ev{"dst": bsOr(st.Dst)}
		x.result(ev, qf.WithRowNums(st.Dst.String()))
	case "Eval":
		qf := x.frame(st.Recv)
		ctxMap := map[string]string{}
		for k, v := range defaultCtx {
			ctxMap[k] = v
		}
		var ff []eval.ConfigFunc
		ctxEv := []Ev{}
		if len(st.Ctx) > 0 {
			c := eval.NewDefaultCtx()
			for _, cf := range st.Ctx {
				fe := fnReg[cf.Sym]
				err := c.SetFunc(cf.Name, fe.Fn)
				ctxEv = append(ctxEv, Ev{"name": cf.Name, "sym": cf.Sym, "argt": fe.ArgT, "arity": fe.Arity, "rest": fe.ResT, "err": b2i(err != nil)})
				if err == nil {
					ctxMap[fmt.Sprintf("%s/%d/%s", fe.ArgT, fe.Arity, cf.Name)] = cf.Sym
				}
			}
			ff = append(ff, eval.EvalContext(c))
		}
		ts := newTableSet()
		func() {
			defer func() { recover() }() // table filling must not disturb the run (e.g. division by zero)
			evalRef(newRefCols(qf), st.Expr, ctxMap, ts)
		}()
		ev["a"] = Ev{"dst": bsOr(st.Dst), "expr": st.Expr.tla(), "ctx": ctxEv, "tbls": ts.tla()}
		var ex qframe.Expression
		switch b := st.Expr.build().(type) {
		case qframe.Expression:
			ex = b
		default:
			ex = qframe.Val(b)
		}
		x.result(ev, qf.Eval(st.Dst.String(), ex, ff...))
	case "GroupBy":
		qf := x.frame(st.Recv)
		g := qf.GroupBy(x.groupOpts(st)...)
		x.groupers = append(x.groupers, g)
		x.gbirth = append(x.gbirth, grouperDigest(g))
		ev["a"] = Ev{"cols": bsOrEmpty(st.Cols), "null": b2i(st.Null), "rid": bsOr(st.Rid)}
		ev["gout"] = len(x.groupers) - 1
		ev["gerr"] = b2i(g.Err != nil)
		ev["gdig"] = x.gbirth[len(x.gbirth)-1]
		// observation of a grouper: its groups as frames
		groups := []Obs{}
		if g.Err == nil {
			qfs, err := g.QFrames()
			if err != nil {
				ev["gerr"] = 1
			}
			for _, q := range qfs {
				groups = append(groups, safeObserve(q, false))
			}
		}
		ev["groups"] = groups
	case "QFrames":
		g := x.groupers[st.Recv]
		qfs, err := g.QFrames()
		outs := []int{}
		obss := []Obs{}
		digs := []int{}
		for _, q := range qfs {
			id, o, d := x.addFrame(q)
			outs = append(outs, id)
			obss = append(obss, o)
			digs = append(digs, d)
		}
		ev["a"] = Ev{"_": 0}
		ev["outs"], ev["obss"], ev["digs"], ev["gerr"] = outs, obss, digs, b2i(err != nil)
	case "Aggregate":
		g := x.groupers[st.Recv]
		aggs := make([]qframe.Aggregation, len(st.Aggs))
		ae := []Ev{}
		ts := newTableSet()
		var groups []qframe.QFrame
		if g.Err == nil {
			groups, _ = g.QFrames()
		}
		for i, a := range st.Aggs {
			aggs[i] = qframe.Aggregation{Fn: a.Fn.goFn(), Column: a.Col.String(), As: a.As.String()}
			sym := a.Fn.Sym
			if a.Fn.K == "builtin" && len(groups) > 0 {
				sym = a.Fn.Sym + ":" + colType(groups[0], a.Col.String())
			}
			fe := a.Fn.tla()
			if e, ok := fnReg[sym]; ok && e.Arity == -1 {
				fe["tsym"] = sym
				fe["argt"], fe["rest"] = e.ArgT, e.ResT
				t := ts.get(sym)
				for _, q := range groups {
					ct := colType(q, a.Col.String())
					if ct != "" && fnType(ct) == e.ArgT {
						aggAdd(t, colVals(q, a.Col.String()))
					}
				}
			} else {
				fe["tsym"] = ""
			}
			ae = append(ae, Ev{"fn": fe, "col": a.Col, "as": bsOr(a.As)})
		}
		ev["a"] = Ev{"aggs": ae, "tbls": ts.tla()}
		x.result(ev, g.Aggregate(aggs...))
	case "Equals":
		a, b := x.frame(st.Recv), x.frame(st.Other)
		eq, _ := a.Equals(b)
		ev["a"] = Ev{"other": st.Other}
		ev["res"] = b2i(eq)
	case "Rebuild":
		x.rebuild(st, ev)
	case "CsvScan":
		x.csvScan(st, ev)
	case "ToSQL", "ReadSQL":
		x.sqlOps(st, ev)
	case "FloatFmt", "FloatJSON":
		x.floatOps(st, ev)
	case "ToCSV", "ToJSON", "String", "ReadCSV", "ReadJSON", "Scribble", "View", "TypedView":
		x.dispatchIO(st, ev)
	case "SliceObs":
		// subsequent observations use View.Slice() instead of View.ItemAt(i)
		x.viaSlice = st.A == 1
		ev["a"] = Ev{"on": st.A}
	default:
		panic("unknown op " + st.Op)
	}
}

// aggAdd records fn(slice) -> value for an aggregation symbol; the key is the whole cell sequence.
func aggAdd(t *Table, vals []GV) {
	if len(vals) == 0 {
		return
	}
	e := fnReg[t.Sym]
	var res GV
	switch e.ArgT {
	case "int":
		s := make([]int, len(vals))
		for i, v := range vals {
			s[i] = v.(int)
		}
		res = rawFn[t.Sym].(func([]int) int)(s)
	case "float":
		s := make([]float64, len(vals))
		for i, v := range vals {
			s[i] = v.(float64)
		}
		res = rawFn[t.Sym].(func([]float64) float64)(s)
	case "bool":
		s := make([]bool, len(vals))
		for i, v := range vals {
			s[i] = v.(bool)
		}
		res = rawFn[t.Sym].(func([]bool) bool)(s)
	case "string":
		s := make([]*string, len(vals))
		for i, v := range vals {
			s[i] = v.(*string)
		}
		res = rawFn[t.Sym].(func([]*string) *string)(s)
	}
	k := gvKey(vals)
	if t.seen[k] {
		return
	}
	t.seen[k] = true
	row := make([]Cell, 0, len(vals)+1)
	for _, v := range vals {
		row = append(row, gvCell(v))
	}
	resCell := gvCell(res)
	if e.ArgT == "float" && strings.Contains(t.Sym, ":") {
		// built-in float aggregations: no document fixes the result in the presence of NaN, of
		// both zeros (min/max) or of infinities of both signs; the specification is told so.
		hasNaN, hasPZ, hasNZ, hasPI, hasNI := false, false, false, false, false
		for _, v := range vals {
			f := v.(float64)
			switch {
			case math.IsNaN(f):
				hasNaN = true
			case f == 0 && math.Signbit(f):
				hasNZ = true
			case f == 0:
				hasPZ = true
			case math.IsInf(f, 1):
				hasPI = true
			case math.IsInf(f, -1):
				hasNI = true
			}
		}
		if hasNaN || (hasPZ && hasNZ) || (hasPI && hasNI) {
			resCell = Cell{3}
		}
	}
	row = append(row, resCell)
	t.Rows = append(t.Rows, row)
}

func cellEq(a, b Cell) bool {
	if len(a) != len(b) {
		return false
	}
	for i := range a {
		if a[i] != b[i] {
			return false
		}
	}
	return true
}

// rebuild constructs a frame with New from the observed values of another (C09).
func (x *Exec) rebuild(st *Step, ev Ev) {
	qf := x.frame(st.Recv)
	data := map[string]types.DataSlice{}
	names := qf.ColumnNames()
	enums := map[string][]string{}
	for _, n := range names {
		switch colType(qf, n) {
		case "int":
			data[n] = qf.MustIntView(n).Slice()
		case "float":
			data[n] = qf.MustFloatView(n).Slice()
		case "bool":
			data[n] = qf.MustBoolView(n).Slice()
		case "string":
			data[n] = qf.MustStringView(n).Slice()
		case "enum":
			data[n] = qf.MustEnumView(n).Slice()
			enums[n] = nil
		}
	}
	ev["a"] = Ev{"_": 0}
	x.result(ev, qframe.New(data, newqf.ColumnOrder(names...), newqf.Enums(enums)))
}

// ---------------------------------------------------------------- files

func readScenarios(path string, fn func(*Scenario)) {
	f, err := os.Open(path)
	if err != nil {
		panic(err)
	}
	defer f.Close()
	rd := bufio.NewReaderSize(f, 1<<20)
	for {
		line, err := rd.ReadBytes('\n')
		if len(bytes.TrimSpace(line)) > 0 {
			var sc Scenario
			if e := json.Unmarshal(line, &sc); e != nil {
				panic(fmt.Sprintf("bad scenario line: %v: %.200s", e, line))
			}
			fn(&sc)
		}
		if err != nil {
			break
		}
	}
}

// sharedEnumMap: within one scenario equal enum declarations are the very same map value (see sharedCsvOpts)
func (x *Exec) sharedEnumMap(enums []EnumDecl) map[string][]string {
	if x.optScn != x.scn || x.enumMaps == nil {
		x.optScn, x.csvOpts, x.enumMaps = x.scn, map[string][]csv.ConfigFunc{}, map[string]map[string][]string{}
	}
	b, _ := json.Marshal(enums)
	if m, ok := x.enumMaps[string(b)]; ok {
		return m
	}
	m := map[string][]string{}
	for _, e := range enums {
		if e.Vals == nil {
			m[e.Name.String()] = nil
		} else {
			m[e.Name.String()] = strList(e.Vals)
		}
	}
	x.enumMaps[string(b)] = m
	return m
}

// groupOpts: the configuration options of Distinct / GroupBy are a set - the order in which they are handed
// in must not matter. The order alternates with the number of values the scenario has produced so far (a
// function of the scenario alone, so that re-executions agree).
func (x *Exec) groupOpts(st *Step) []groupby.ConfigFunc {
	opts := []groupby.ConfigFunc{groupby.Columns(strList(st.Cols)...), groupby.Null(st.Null)}
	if (len(x.frames)+len(x.groupers))%2 == 1 {
		opts[0], opts[1] = opts[1], opts[0]
	}
	return opts
}
