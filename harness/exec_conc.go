package main

// C11: operations started together on separate goroutines, on the same frame and on frames sharing
// storage with it. Each goroutine works on a fork of the executor (the family is shared read-only,
// results are collected locally) and is released from a common barrier; the batch is repeated with
// seeded yields. Afterwards the results are merged into the family in a fixed order and emitted as
// ordinary events, so TLC judges every concurrent result against the operation's semantics exactly
// as it judges a sequential one. The harness is built with -race; a report written by the race
// detector during the batch is attached to the first event (race = 1), which TLC never accepts.

import (
	"encoding/json"
	"fmt"
	"math/rand"
	"os"
	"path/filepath"
	"runtime"
	"strconv"
	"sync"
	"sync/atomic"
	"time"

	"github.com/tobgu/qframe"
)

func raceLogSize() int64 {
	pat := os.Getenv("VERIF_RACE_LOG")
	if pat == "" {
		return 0
	}
	var n int64
	files, _ := filepath.Glob(pat + "*")
	for _, f := range files {
		if st, err := os.Stat(f); err == nil {
			n += st.Size()
		}
	}
	return n
}

func (x *Exec) fork() *Exec {
	c := &Exec{scn: x.scn, step: x.step, viaSlice: x.viaSlice}
	c.frames = append([]qframe.QFrame{}, x.frames...)
	c.birth = append([]int{}, x.birth...)
	c.groupers = append([]qframe.Grouper{}, x.groupers...)
	c.gbirth = append([]int{}, x.gbirth...)
	c.views = append([]func() []Cell{}, x.views...)
	return c
}

var concOverlap int64 // number of batches in which at least two goroutines were inside an operation at once

// noteInflight records the scenario about to run a concurrent batch (VERIF_INFLIGHT names the file): the
// Go runtime ends the whole process on some concurrency errors ("fatal error: concurrent map writes"),
// which no recover() can intercept; the runner then knows which scenario to execute again.
func noteInflight(sc *Scenario, scn int) {
	path := os.Getenv("VERIF_INFLIGHT")
	if path == "" {
		return
	}
	cp := *sc
	cp.ID = scn
	if b, err := json.Marshal(&cp); err == nil {
		os.WriteFile(path, append(b, '\n'), 0o644)
	}
}

func (x *Exec) runConcurrent(sc *Scenario, st *Step) {
	noteInflight(sc, x.scn)
	reps := 1
	if st.A > 0 {
		reps = st.A
	}
	seed := int64(st.B)
	for rep := 0; rep < reps; rep++ {
		nF, nG, nV := len(x.frames), len(x.groupers), len(x.views)
		before := raceLogSize()
		kids := make([]*Exec, len(st.Subs))
		evs := make([]Ev, len(st.Subs))
		start := make(chan struct{})
		var wg sync.WaitGroup
		var inside, maxInside int64
		for k := range st.Subs {
			kids[k] = x.fork()
			wg.Add(1)
			go func(k int) {
				defer wg.Done()
				rng := rand.New(rand.NewSource(seed + int64(k)*7919 + int64(rep)))
				<-start
				for y := rng.Intn(4); y > 0; y-- {
					runtime.Gosched()
				}
				n := atomic.AddInt64(&inside, 1)
				for {
					m := atomic.LoadInt64(&maxInside)
					if n <= m || atomic.CompareAndSwapInt64(&maxInside, m, n) {
						break
					}
				}
				evs[k] = kids[k].runOne(sc, &st.Subs[k])
				atomic.AddInt64(&inside, -1)
			}(k)
		}
		close(start)
		wg.Wait()
		if maxInside >= 2 {
			atomic.AddInt64(&concOverlap, 1)
		}
		raced := raceLogSize() > before
		// merge in a fixed order
		for k, ev := range evs {
			kid := kids[k]
			if len(kid.frames) > nF {
				for j := nF; j < len(kid.frames); j++ {
					x.frames = append(x.frames, kid.frames[j])
					x.birth = append(x.birth, kid.birth[j])
				}
				if o, ok := ev["out"].(int); ok && o >= 0 {
					ev["out"] = len(x.frames) - 1
				}
			}
			if len(kid.groupers) > nG {
				x.groupers = append(x.groupers, kid.groupers[nG:]...)
				x.gbirth = append(x.gbirth, kid.gbirth[nG:]...)
				ev["gout"] = len(x.groupers) - 1
			}
			if len(kid.views) > nV {
				x.views = append(x.views, kid.views[nV:]...)
				ev["vout"] = len(x.views) - 1
			}
			ev["conc"] = len(st.Subs)
			ev["overlap"] = int(maxInside)
			if k == 0 {
				if raced {
					ev["race"] = 1
				}
				x.finishEvent(ev, nF, nG, nV)
			} else {
				ev["reobs"], ev["greobs"], ev["vreobs"] = [][]int{}, [][]int{}, [][]int{}
			}
			x.emit(ev)
		}
	}
}

// Step watchdog. Every operation of a scenario completes in milliseconds; one that is still running after
// VERIF_STEP_LIMIT seconds (default 120) is hung inside the library. The scenario executed so far is
// written to the in-flight file and the process exits with status 97, so that the runner can execute the
// scenario again and decide whether the hang recurs.
var (
	wdMu    sync.Mutex
	wdScn   *Scenario
	wdID    int
	wdStep  int
	wdSince time.Time
)

func watchStep(sc *Scenario, id, step int) {
	wdMu.Lock()
	wdScn, wdID, wdStep, wdSince = sc, id, step, time.Now()
	wdMu.Unlock()
}

func unwatchStep() {
	wdMu.Lock()
	wdScn = nil
	wdMu.Unlock()
}

func init() {
	limit := 120 * time.Second
	if v := os.Getenv("VERIF_STEP_LIMIT"); v != "" {
		if n, err := strconv.Atoi(v); err == nil && n > 0 {
			limit = time.Duration(n) * time.Second
		}
	}
	go func() {
		for {
			time.Sleep(time.Second)
			wdMu.Lock()
			sc, id, step, since := wdScn, wdID, wdStep, wdSince
			wdMu.Unlock()
			if sc != nil && time.Since(since) > limit {
				noteInflight(sc, id)
				fmt.Fprintf(os.Stderr, "VERIF-HANG scenario %d step %d: no result after %v\n", id, step, limit)
				os.Exit(97)
			}
		}
	}()
}
