package main

func init() { generators["C08"] = genC08 }

var nameKinds = []string{"A", "B", "C", "a b", "\xff\x00", "", "'q'", "\"q\"", "$d", "a$", "'", "x'", "É", "long_name_long_name_long_name_long_name"}

func (g *Gen) colOfLen(name string, kind string, n int) ColData {
	d := ColData{Name: toBS(name), Kind: kind}
	switch kind {
	case "int":
		d.Ints = g.intVals(n, 14)
	case "float":
		d.Floats = g.floatVals(n, 16)
	case "bool":
		d.Bools = g.boolVals(n)
	case "string", "strs":
		d.Strs = g.strVals(n, 18, 30)
		if kind == "strs" {
			for i := range d.Strs {
				if d.Strs[i] == nil {
					d.Strs[i] = bsp("")
				}
			}
		}
	case "cint":
		d.Ints = g.intVals(1, 14)
		d.Count = n
	case "cfloat":
		d.Floats = g.floatVals(1, 16)
		d.Count = n
	case "cbool":
		d.Bools = g.boolVals(1)
		d.Count = n
	case "cstring":
		d.Strs = g.strVals(1, 18, 30)
		d.Count = n
	}
	return d
}

var dataKinds = []string{"int", "float", "bool", "string", "strs", "cint", "cfloat", "cbool", "cstring"}

// constZeros: constant columns holding each type's zero value - and a null - are columns of that value
func (g *Gen) constZeros() {
	for _, count := range []int{1, 3} {
		for _, enum := range []bool{false, true} {
			g.begin("constant zero values")
			st := Step{Op: "New", Recv: -1, HasOrder: true, ColOrder: bsList([]string{"S", "N", "I", "F", "G", "B"}),
				Data: []ColData{{Name: toBS("S"), Kind: "cstring", Strs: []*BS{bsp("")}, Count: count}, {Name: toBS("N"), Kind: "cstring", Strs: []*BS{nil}, Count: count},
					{Name: toBS("I"), Kind: "cint", Ints: []int64{0}, Count: count}, {Name: toBS("F"), Kind: "cfloat", Floats: []string{"0"}, Count: count},
					{Name: toBS("G"), Kind: "cfloat", Floats: []string{"NaN"}, Count: count}, {Name: toBS("B"), Kind: "cbool", Bools: []bool{false}, Count: count}}}
			if enum {
				st.HasEnums, st.Enums = true, []EnumDecl{{Name: toBS("S"), Vals: nil}}
			}
			f := g.do(st)
			g.do(Step{Op: "ToJSON", Recv: f})
			g.do(Step{Op: "ToCSV", Recv: f})
			cl := Clause{K: "leaf", Col: toBS("S"), CmpK: "str", Cmp: "isnull"}
			g.do(Step{Op: "Filter", Recv: f, Clause: &cl})
			g.do(Step{Op: "Apply", Recv: f, Instrs: []Instr{{Fn: FnRef{K: "const", V: &Val{T: "nil"}}, Dst: toBS("E2")}}})
			a := g.do(Step{Op: "Apply", Recv: f, Instrs: []Instr{{Fn: FnRef{K: "const", V: &Val{T: "string", S: toBS("")}}, Dst: toBS("E")},
				{Fn: FnRef{K: "const", V: &Val{T: "int", I: 0}}, Dst: toBS("I2")}, {Fn: FnRef{K: "const", V: &Val{T: "pstring", S: toBS("")}}, Dst: toBS("E3")}}})
			g.do(Step{Op: "View", Recv: a, Dst: toBS("E")})
			g.do(Step{Op: "ToJSON", Recv: a})
			g.end()
		}
	}
}

func genC08(g *Gen) {
	g.constZeros()
	for rep := 0; rep < g.pick(40, 400); rep++ {
		g.begin("sibling column additions")
		g.siblingAdds(g.do(g.stdNew([]int{0, 1, 3, 6}[g.rng.Intn(4)], g.oneOf([]string{"AB", "ABF", "SAT", "EXAF"}), 8)))
		g.end()
	}
	// 1. every assignment of lengths {0,1,2} to 1..3 columns, default (alphabetical) order and every
	//    explicit order; the "first column empty" cases are the ones of D1.
	lens := []int{0, 1, 2}
	names := []string{"A", "B", "C"}
	perms3 := [][]int{{0, 1, 2}, {0, 2, 1}, {1, 0, 2}, {1, 2, 0}, {2, 0, 1}, {2, 1, 0}}
	for nc := 1; nc <= 3; nc++ {
		total := 1
		for i := 0; i < nc; i++ {
			total *= len(lens)
		}
		for code := 0; code < total; code++ {
			c := code
			data := []ColData{}
			for i := 0; i < nc; i++ {
				kind := dataKinds[g.rng.Intn(len(dataKinds))]
				data = append(data, g.colOfLen(names[i], kind, lens[c%len(lens)]))
				c /= len(lens)
			}
			g.begin("New lengths default order")
			g.do(Step{Op: "New", Recv: -1, Data: data})
			g.end()
			for _, p := range perms3 {
				ord := []BS{}
				ok := true
				for _, j := range p {
					if j >= nc {
						ok = false
					}
				}
				if !ok && nc == 3 {
					continue
				}
				for _, j := range p {
					if j < nc {
						ord = append(ord, toBS(names[j]))
					}
				}
				if nc < 3 && !(p[0] < p[1] || nc == 2) {
					continue
				}
				g.begin("New lengths explicit order")
				g.do(Step{Op: "New", Recv: -1, Data: data, HasOrder: true, ColOrder: ord})
				g.end()
			}
		}
	}
	// 2. order / enum configuration errors
	for rep := 0; rep < g.pick(20, 200); rep++ {
		n := g.rng.Intn(4)
		data := []ColData{g.colOfLen("A", "int", n), g.colOfLen("S", "string", n), g.colOfLen("E", "string", n)}
		st := Step{Op: "New", Recv: -1, Data: data}
		switch g.rng.Intn(6) {
		case 0:
			st.HasOrder, st.ColOrder = true, bsList([]string{"A", "S"}) // too short
		case 1:
			st.HasOrder, st.ColOrder = true, bsList([]string{"A", "S", "Z"}) // unknown
		case 2:
			st.HasOrder, st.ColOrder = true, bsList([]string{"A", "S", "S"}) // duplicate
		case 3:
			st.HasOrder, st.ColOrder = true, bsList([]string{"E", "A", "S", "A"}) // too long
		case 4:
			st.HasOrder, st.ColOrder = true, bsList([]string{"S", "E", "A"})
		}
		switch g.rng.Intn(7) {
		case 0:
			st.HasEnums, st.Enums = true, []EnumDecl{{Name: toBS("E"), Vals: nil}}
		case 1:
			st.HasEnums, st.Enums = true, []EnumDecl{{Name: toBS("E"), Vals: bsList(strPool)}}
		case 2:
			st.HasEnums, st.Enums = true, []EnumDecl{{Name: toBS("E"), Vals: bsList([]string{"a", "b"})}} // likely undeclared values
		case 3:
			st.HasEnums, st.Enums = true, []EnumDecl{{Name: toBS("Q"), Vals: nil}} // missing column
		case 4:
			st.HasEnums, st.Enums = true, []EnumDecl{{Name: toBS("A"), Vals: nil}} // non-string column
		case 5:
			st.HasEnums, st.Enums = true, []EnumDecl{{Name: toBS("E"), Vals: []BS{}}, {Name: toBS("S"), Vals: bsList(strPool)}}
		}
		g.begin("New config")
		g.do(st)
		g.end()
	}
	// 3. names, kinds, unsupported data
	for _, nm := range nameKinds {
		for _, k := range []string{"int", "cstring"} {
			g.begin("New name")
			g.do(Step{Op: "New", Recv: -1, Data: []ColData{g.colOfLen(nm, k, 2), g.colOfLen("Z", "bool", 2)}})
			g.end()
		}
	}
	g.begin("New bad kind")
	g.do(Step{Op: "New", Recv: -1, Data: []ColData{g.colOfLen("A", "int", 2), {Name: toBS("Q"), Kind: "bad"}}})
	g.end()
	g.begin("New empty map")
	g.do(Step{Op: "New", Recv: -1})
	g.end()
	// 4. random maps, then projections on derived frames
	for rep := 0; rep < g.pick(60, 1500); rep++ {
		n := []int{0, 1, 2, 3, 5, 8, 13, 40, 120, 500}[g.rng.Intn(g.pick(8, 10))]
		cols := g.subset([]string{"A", "B", "F", "G", "T", "S", "R", "E", "X"}, 6)
		spec := ""
		for _, c := range cols {
			spec += c
		}
		g.begin("projections")
		f := g.do(g.stdNew(n, spec, 18))
		if g.frame(f).Err != nil {
			g.end()
			continue
		}
		// derive
		for k := g.rng.Intn(3); k > 0; k-- {
			f = g.derive(f)
		}
		for k := 0; k < 6; k++ {
			g.projection(g.rng.Intn(len(g.x.frames)))
		}
		g.end()
	}
}

// derive applies a random index- or column-changing operation (valid with high probability).
func (g *Gen) derive(f int) int {
	s := schemaOf(g.frame(f))
	if s.err || len(s.names) == 0 {
		return f
	}
	k := g.rng.Intn(6)
	if s.n > 250 && (k == 0 || k == 3) {
		k = 1 + g.rng.Intn(2) // sort / distinct of a large frame are only judged with a row-number column
	}
	switch k {
	case 4: // drop a column that is not the last one: the remaining columns move to new positions
		if len(s.names) >= 2 {
			return g.do(Step{Op: "Drop", Recv: f, Cols: bsList([]string{s.names[g.rng.Intn(len(s.names)-1)]})})
		}
		return f
	case 5: // the same columns in another order
		if len(s.names) >= 2 {
			return g.do(Step{Op: "Select", Recv: f, Cols: bsList(g.perm(s.names))})
		}
		return f
	case 0:
		c := g.oneOf(s.names)
		return g.do(Step{Op: "Sort", Recv: f, Orders: []Order{{Col: toBS(c), Rev: g.rng.Intn(2) == 0, NullLast: g.rng.Intn(2) == 0}}})
	case 1:
		a := 0
		if s.n > 0 {
			a = g.rng.Intn(s.n + 1)
		}
		b := a
		if s.n-a > 0 {
			b = a + g.rng.Intn(s.n-a+1)
		}
		return g.do(Step{Op: "Slice", Recv: f, A: a, B: b})
	case 2:
		cl := g.simpleLeaf(s)
		return g.do(Step{Op: "Filter", Recv: f, Clause: &cl})
	default:
		return g.do(Step{Op: "Distinct", Recv: f, Cols: bsList(g.subset(s.names, 2)), Null: g.rng.Intn(2) == 0})
	}
}

// simpleLeaf: a valid comparison of a column with a constant of its type.
func (g *Gen) simpleLeaf(s schema) Clause {
	c := g.oneOf(s.names)
	cl := Clause{K: "leaf", Col: toBS(c), CmpK: "str", Inv: g.rng.Intn(5) == 0}
	switch s.typeOf(c) {
	case "int":
		cl.Cmp = []string{"<", "<=", ">", ">=", "=", "!="}[g.rng.Intn(6)]
		cl.Arg = &Val{T: "int", I: intPool[g.rng.Intn(8)]}
	case "float":
		cl.Cmp = []string{"<", "<=", ">", ">=", "=", "!=", "isnull", "isnotnull"}[g.rng.Intn(8)]
		if cl.Cmp != "isnull" && cl.Cmp != "isnotnull" {
			cl.Arg = &Val{T: "float", F: []string{"0", "1", "2.5", "-1.5", "3"}[g.rng.Intn(5)]}
		}
	case "bool":
		cl.Cmp = []string{"=", "!="}[g.rng.Intn(2)]
		cl.Arg = &Val{T: "bool", B: g.rng.Intn(2) == 0}
	case "string":
		cl.Cmp = []string{"<", "<=", ">", ">=", "=", "!=", "isnull", "isnotnull"}[g.rng.Intn(8)]
		if cl.Cmp != "isnull" && cl.Cmp != "isnotnull" {
			cl.Arg = &Val{T: "string", S: toBS(strPool[g.rng.Intn(8)])}
		}
	case "enum":
		cl.Cmp = []string{"<", "<=", ">", ">=", "=", "!=", "isnull", "isnotnull"}[g.rng.Intn(8)]
		if cl.Cmp != "isnull" && cl.Cmp != "isnotnull" {
			cl.Arg = &Val{T: "string", S: toBS(enumTable[g.rng.Intn(len(enumTable))])}
		}
	default:
		cl.Cmp = "="
		cl.Arg = &Val{T: "int", I: 1}
	}
	return cl
}

func (g *Gen) projection(f int) {
	s := schemaOf(g.frame(f))
	names := append([]string{}, s.names...)
	pool := append(names, "nosuch", "")
	pickCols := func() []BS {
		k := g.rng.Intn(4)
		r := []BS{}
		for i := 0; i < k; i++ {
			if g.rng.Intn(8) == 0 {
				r = append(r, toBS(g.oneOf(pool)))
			} else {
				r = append(r, toBS(g.oneOf(names)))
			}
		}
		return r
	}
	switch g.rng.Intn(4) {
	case 0:
		g.do(Step{Op: "Select", Recv: f, Cols: pickCols()})
	case 1:
		g.do(Step{Op: "Drop", Recv: f, Cols: pickCols()})
	case 2:
		n := s.n
		if n < 0 {
			n = 2
		}
		a := g.rng.Intn(n+3) - 1
		b := g.rng.Intn(n+3) - 1
		if g.rng.Intn(3) > 0 && a > b {
			a, b = b, a
		}
		g.do(Step{Op: "Slice", Recv: f, A: a, B: b})
	case 3:
		dst := g.oneOf(append(pool, "N", "'bad'", "$x"))
		g.do(Step{Op: "Copy", Recv: f, Dst: toBS(dst), Src: toBS(g.oneOf(pool))})
	}
}
