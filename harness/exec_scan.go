package main

import (
	"github.com/tobgu/qframe/internal/fastcsv"
)

// CsvScan: exact replay of a behaviour of spec/CsvScan.tla through the real scanner: the same
// document, the same initial buffer capacity (hook H2: fastcsv.NewReaderSize, build tag verif) and
// the same number of bytes per Read. The rows the scanner returns are logged; TLC compares them with
// the RFC 4180 denotation.
func (x *Exec) csvScan(st *Step, ev Ev) {
	doc := []byte(st.Doc.String())
	bufcap := 1024
	delim := byte(',')
	if st.Csv != nil {
		if st.Csv.BufCap > 0 {
			bufcap = st.Csv.BufCap
		}
		if st.Csv.Delim != 0 {
			delim = byte(st.Csv.Delim)
		}
	}
	rd := &chunkReader{data: doc, sizes: st.Reads, eofWith: st.Csv != nil && st.Csv.EOFWithData, fault: st.Fault}
	r := fastcsv.NewReaderSize(rd, delim, bufcap)
	rows := [][]BS{}
	for r.Next() {
		row := []BS{}
		for _, f := range r.Fields() {
			row = append(row, bytesBS(f))
		}
		rows = append(rows, row)
	}
	ev["a"] = Ev{"doc": bytesBS(doc), "delim": int(delim), "bufcap": bufcap, "reads": intsOrEmpty(st.Reads)}
	ev["rows"] = rows
	ev["err"] = b2i(r.Err() != nil)
	ev["fired"] = b2i(rd.fired)
}
