package main

func init() { generators["C02"] = genC02 }

var likePatterns = []string{"a%", "%b", "%a%", "ab", "%", "%%", "", "A%", "%B", "a", "abc", "%é", "É%", "a.c", ".*", "a|b", "%a.", "b.%", "(", "[a", "a+", "^a", "a$", "%.%", "x\ny"}

// randomLeaf: a comparison on column c; mostly well-typed, sometimes deliberately not.
func (g *Gen) randomLeaf(s schema) Clause {
	c := g.oneOf(s.names)
	if g.rng.Intn(40) == 0 {
		c = "nosuch"
	}
	t := s.typeOf(c)
	cl := Clause{K: "leaf", Col: toBS(c), CmpK: "str", Inv: g.rng.Intn(4) == 0}
	ord := []string{"<", "<=", ">", ">=", "=", "!="}
	same := func(ts ...string) string { return g.oneOf(s.colsOfType(ts...)) }
	r := g.rng.Intn(100)
	switch t {
	case "int":
		switch {
		case r < 30:
			cl.Cmp, cl.Arg = g.oneOf(ord), &Val{T: "int", I: intPool[g.rng.Intn(10)]}
		case r < 38:
			cl.Cmp, cl.Arg = g.oneOf(ord), &Val{T: "float", F: []string{"1.5", "2", "-0.5", "0", "3.99"}[g.rng.Intn(5)]}
		case r < 48:
			l := []Val{}
			for k := g.rng.Intn(4); k > 0; k-- {
				l = append(l, Val{T: "int", I: intPool[g.rng.Intn(8)]})
			}
			cl.Cmp, cl.Arg = "in", &Val{T: []string{"ints", "ifaces"}[g.rng.Intn(2)], L: l}
		case r < 52:
			cl.Cmp, cl.Arg = "in", &Val{T: "floats", L: []Val{{T: "float", F: "1"}, {T: "float", F: "2.5"}}}
		case r < 60:
			cl.Cmp, cl.Arg = g.oneOf(ord), &Val{T: "col", S: toBS(same("int"))}
		case r < 70:
			cl.Cmp, cl.Arg = g.oneOf(ord), &Val{T: "col", S: toBS(same("float"))}
			cl.Inv = g.rng.Intn(2) == 0 // negated comparisons with a nullable argument column
		case r < 76:
			cl.Cmp = []string{"isnull", "isnotnull"}[g.rng.Intn(2)]
		case r < 82:
			cl.CmpK, cl.Cmp = "fn1", "oddI"
		case r < 88:
			cl.CmpK, cl.Cmp, cl.Arg = "fn2", "ltII", &Val{T: "col", S: toBS(same("int"))}
		case r < 94:
			cl.Cmp, cl.Arg = []string{"any_bits", "all_bits"}[g.rng.Intn(2)], &Val{T: "int", I: int64(g.rng.Intn(8))}
		default:
			g.badLeaf(&cl, s)
		}
	case "float":
		switch {
		case r < 40:
			cl.Cmp, cl.Arg = g.oneOf(ord), &Val{T: "float", F: floatPool[g.rng.Intn(len(floatPool))]}
		case r < 55:
			cl.Cmp, cl.Arg = g.oneOf(ord), &Val{T: "col", S: toBS(same("float"))}
		case r < 62:
			cl.Cmp, cl.Arg = g.oneOf(ord), &Val{T: "col", S: toBS(same("int"))}
		case r < 76:
			cl.Cmp = []string{"isnull", "isnotnull"}[g.rng.Intn(2)]
		case r < 83:
			cl.CmpK, cl.Cmp = "fn1", "isNegF"
		case r < 90:
			cl.CmpK, cl.Cmp, cl.Arg = "fn2", "ltFF", &Val{T: "col", S: toBS(same("float"))}
		default:
			g.badLeaf(&cl, s)
		}
	case "bool":
		switch {
		case r < 40:
			cl.Cmp, cl.Arg = []string{"=", "!="}[g.rng.Intn(2)], &Val{T: "bool", B: g.rng.Intn(2) == 0}
		case r < 65:
			cl.Cmp, cl.Arg = []string{"=", "!="}[g.rng.Intn(2)], &Val{T: "col", S: toBS(same("bool"))}
		case r < 75:
			cl.CmpK, cl.Cmp = "fn1", "NotB"
		case r < 85:
			cl.CmpK, cl.Cmp, cl.Arg = "fn2", "implBB", &Val{T: "col", S: toBS(same("bool"))}
		default:
			g.badLeaf(&cl, s)
		}
	case "string", "enum":
		pool := strPool
		if t == "enum" {
			pool = append(append([]string{}, enumTable...), "zz")
		}
		switch {
		case r < 30:
			cl.Cmp, cl.Arg = g.oneOf(ord), &Val{T: "string", S: toBS(pool[g.rng.Intn(len(pool))])}
		case r < 42:
			l := []Val{}
			for k := g.rng.Intn(4); k > 0; k-- {
				l = append(l, Val{T: "string", S: toBS(pool[g.rng.Intn(len(pool))])})
			}
			cl.Cmp, cl.Arg = "in", &Val{T: []string{"strs", "ifaces"}[g.rng.Intn(2)], L: l}
		case r < 54:
			cl.Cmp, cl.Arg = g.oneOf(ord), &Val{T: "col", S: toBS(same(t))}
		case r < 66:
			cl.Cmp = []string{"isnull", "isnotnull"}[g.rng.Intn(2)]
		case r < 72:
			cl.CmpK, cl.Cmp = "fn1", "isNilS"
		case r < 78:
			cl.CmpK, cl.Cmp, cl.Arg = "fn2", "prefixSS", &Val{T: "col", S: toBS(same(t))}
		case r < 93:
			cl.Cmp, cl.Arg = []string{"like", "ilike"}[g.rng.Intn(2)], &Val{T: "string", S: toBS(likePatterns[g.rng.Intn(len(likePatterns))])}
		default:
			g.badLeaf(&cl, s)
		}
	default:
		cl.Cmp, cl.Arg = "=", &Val{T: "int", I: 1}
	}
	return cl
}

// badLeaf: ill-typed argument, unknown comparator, wrong predicate signature, missing argument column ...
func (g *Gen) badLeaf(cl *Clause, s schema) {
	switch g.rng.Intn(8) {
	case 0:
		cl.Cmp, cl.Arg = "=", &Val{T: "struct"}
	case 1:
		cl.Cmp, cl.Arg = "~~", &Val{T: "int", I: 1}
	case 2:
		cl.CmpK, cl.Cmp = "bad", ""
	case 3:
		cl.Cmp, cl.Arg = "=", &Val{T: "col", S: toBS("nosuch")}
	case 4:
		cl.CmpK, cl.Cmp = "fn1", []string{"oddI", "isNegF", "NotB", "isNilS"}[g.rng.Intn(4)]
	case 5:
		cl.Cmp, cl.Arg = "in", &Val{T: "ifaces", L: []Val{{T: "int", I: 1}, {T: "string", S: toBS("a")}}}
	case 6:
		cl.Cmp, cl.Arg = "<", &Val{T: "col", S: toBS(g.oneOf(s.names))}
	case 7:
		cl.Cmp, cl.Arg = "=", &Val{T: []string{"pstring", "nilpstring", "bools", "int", "string", "bool", "float"}[g.rng.Intn(7)], S: toBS("a"), I: 1, F: "NaN", L: []Val{{T: "bool", B: true}}}
	}
}

func (g *Gen) randomClause(s schema, depth int) Clause {
	if depth <= 0 || g.rng.Intn(3) == 0 {
		return g.randomLeaf(s)
	}
	switch g.rng.Intn(10) {
	case 0, 1, 2:
		k := 1 + g.rng.Intn(3)
		if g.rng.Intn(60) == 0 {
			k = 0
		}
		subs := []Clause{}
		for i := 0; i < k; i++ {
			subs = append(subs, g.randomClause(s, depth-1))
		}
		return Clause{K: "and", Subs: subs}
	case 3, 4, 5, 6:
		k := 1 + g.rng.Intn(4)
		if g.rng.Intn(60) == 0 {
			k = 0
		}
		subs := []Clause{}
		for i := 0; i < k; i++ {
			subs = append(subs, g.randomClause(s, depth-1))
		}
		return Clause{K: "or", Subs: subs}
	case 7, 8:
		return Clause{K: "not", Subs: []Clause{g.randomClause(s, depth-1)}}
	default:
		if g.rng.Intn(4) == 0 {
			return Clause{K: "null"}
		}
		return g.randomLeaf(s)
	}
}

// leafContexts: every kind of leaf next to a leaf that selects some rows, before and after it, under Or
// and And and negated: a leaf kernel must only ever add to (Or) or remove from (And) what its neighbours
// selected, whatever its own outcome (all rows, no rows, error).
func (g *Gen) leafContexts() {
	for rep := 0; rep < g.pick(60, 600); rep++ {
		g.begin("leaf contexts")
		f := g.do(g.stdNew([]int{3, 6, 9}[g.rng.Intn(3)], "ACFTSEX", 6))
		if g.rng.Intn(3) == 0 {
			f = g.derive(f)
		}
		s := schemaOf(g.frame(f))
		if s.err || s.typeOf("A") != "int" {
			g.end()
			continue
		}
		sel := Clause{K: "leaf", Col: toBS("A"), CmpK: "str", Cmp: ">", Arg: &Val{T: "int", I: intPool[g.rng.Intn(6)]}}
		inv := func(c Clause) Clause { c.Inv = true; return c }
		for k := 0; k < 3; k++ {
			l := g.randomLeaf(s)
			ctx := []Clause{
				{K: "or", Subs: []Clause{sel, l}},
				{K: "or", Subs: []Clause{l, sel}},
				{K: "and", Subs: []Clause{sel, l}},
				{K: "and", Subs: []Clause{l, sel}},
				{K: "or", Subs: []Clause{sel, {K: "not", Subs: []Clause{l}}}},
				{K: "or", Subs: []Clause{sel, l, sel}},
				{K: "and", Subs: []Clause{{K: "null"}, l}},
				{K: "or", Subs: []Clause{{K: "and", Subs: []Clause{sel}}, l}},
				{K: "or", Subs: []Clause{inv(l), inv(g.randomLeaf(s))}},
				{K: "or", Subs: []Clause{inv(g.randomLeaf(s)), inv(l), inv(sel)}},
				{K: "and", Subs: []Clause{inv(l), inv(g.randomLeaf(s))}},
			}
			for i := range ctx {
				if g.thorough() || g.rng.Intn(2) == 0 {
					g.do(Step{Op: "Filter", Recv: f, Clause: &ctx[i]})
				}
			}
		}
		g.end()
	}
}

// likeSequences: the same pattern text under like and ilike, one after the other, on data where the case
// rule decides: neither may inherit anything from the other (the full treatment is C18's)
func (g *Gen) likeSequences() {
	for rep := 0; rep < g.pick(12, 120); rep++ {
		g.begin("like sequences")
		vals := []*BS{bsp("abc"), bsp("ABC"), bsp("aXc"), nil, bsp("xabcx"), bsp("Abc"), bsp("ſ"), bsp("ı"), bsp("ɐb"), bsp("s"), bsp("I")}
		f := g.do(Step{Op: "New", Recv: -1, HasOrder: true, ColOrder: bsList([]string{"S", "X"}), HasEnums: true, Enums: []EnumDecl{{Name: toBS("X"), Vals: nil}},
			Data: []ColData{{Name: toBS("S"), Kind: "string", Strs: vals}, {Name: toBS("X"), Kind: "string", Strs: vals}}})
		pat := g.oneOf([]string{"a.c", "%A[bx]C%", "A.C%", "%b.", "a.1", ".*bc", "(abc|ABC)", "s", "i", "ɐb", "%ɐb", "abc", "ABC"}) + g.oneOf([]string{"", "", "%"})
		seq := [][]string{{"like", "ilike", "like"}, {"ilike", "like", "ilike"}}[rep%2]
		for _, c := range seq {
			for _, col := range []string{"S", "X"} {
				cl := Clause{K: "leaf", Col: toBS(col), CmpK: "str", Cmp: c, Arg: &Val{T: "string", S: toBS(pat)}, Inv: g.rng.Intn(5) == 0}
				g.do(Step{Op: "Filter", Recv: f, Clause: &cl})
			}
		}
		g.end()
	}
}

func genC02(g *Gen) {
	g.likeSequences()
	g.leafContexts()
	cat := leafCatalogue()
	g.arrangedFrames("filter arranged", func(f int) {
		for i := range cat {
			cl := cat[i]
			if g.rng.Intn(5) == 0 {
				cl = Clause{K: "not", Subs: []Clause{cl}}
			}
			g.do(Step{Op: "Filter", Recv: f, Clause: &cl})
		}
		// several inverted plain filters side by side (they are evaluated as one batch)
		for k := 0; k < 4; k++ {
			a, b, c := cat[g.rng.Intn(len(cat))], cat[g.rng.Intn(len(cat))], cat[g.rng.Intn(len(cat))]
			a.Inv, b.Inv = true, true
			cl := Clause{K: "or", Subs: []Clause{a, b, c}}
			g.do(Step{Op: "Filter", Recv: f, Clause: &cl})
		}
		// composite sub clauses: the partial results are merged row by row (orFrames, Not's complement)
		for k := 0; k < 6; k++ {
			a, b, c := cat[g.rng.Intn(len(cat))], cat[g.rng.Intn(len(cat))], cat[g.rng.Intn(len(cat))]
			cl := []Clause{
				{K: "or", Subs: []Clause{{K: "and", Subs: []Clause{a}}, {K: "and", Subs: []Clause{b}}}},
				{K: "or", Subs: []Clause{{K: "and", Subs: []Clause{a, b}}, {K: "not", Subs: []Clause{{K: "and", Subs: []Clause{c}}}}}},
				{K: "not", Subs: []Clause{{K: "or", Subs: []Clause{{K: "and", Subs: []Clause{a}}, b}}}},
				{K: "and", Subs: []Clause{{K: "or", Subs: []Clause{a, {K: "and", Subs: []Clause{b}}}}, {K: "or", Subs: []Clause{{K: "null"}, c}}}},
			}[k%4]
			g.do(Step{Op: "Filter", Recv: f, Clause: &cl})
		}
	})
	colsets := []string{"ABCFG", "ACFST", "SREDX", "ABTU", "FGSE", "CEDXY", "ABCFGTUSREDXY"}
	sizes := []int{0, 1, 2, 3, 4, 6, 9, 14, 25, 60, 300}
	for rep := 0; rep < g.pick(300, 5000); rep++ {
		n := sizes[g.rng.Intn(g.pick(9, len(sizes)))]
		g.begin("filter")
		f := g.do(g.stdNew(n, colsets[g.rng.Intn(len(colsets))], 10))
		for k := g.rng.Intn(3); k > 0; k-- {
			f = g.derive(f)
		}
		s := schemaOf(g.frame(f))
		if s.err || len(s.names) == 0 {
			g.end()
			continue
		}
		for k := 0; k < 4; k++ {
			cl := g.randomClause(s, g.pick(3, 5))
			g.do(Step{Op: "Filter", Recv: f, Clause: &cl})
		}
		g.end()
	}
}
