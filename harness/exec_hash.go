package main

import (
	"github.com/tobgu/qframe/internal/grouper"
)

// HashGroup: a behaviour of spec/HashGroup.tla replayed through the real hash table: the rows'
// keys become a float column (1 -> 1.5, 2 -> +0.0, 3 -> -0.0 (equal to 2), 0 -> NaN/null, others
// k -> k), the model's hash value of every row is installed through hook H1 (grouper.VerifHash,
// build tag verif), then the real GroupBy / Distinct runs under exactly that collision pattern and
// is judged like any other GroupBy / Distinct event.
func (x *Exec) hashGroup(sc *Scenario, st *Step) {
	fl := make([]string, len(st.Opts))
	for i, k := range st.Opts {
		switch k {
		case 0:
			fl[i] = "NaN"
		case 1:
			fl[i] = "1.5"
		case 2:
			fl[i] = "0"
		case 3:
			fl[i] = "-0"
		default:
			fl[i] = itoa(k)
		}
	}
	hashes := st.Reads
	// the same keys as a string column (0 -> null, 3 -> the same string as 2) and, for a third of the
	// behaviours, as an enum column: every key type has its own Compare and Hash
	strs := make([]*BS, len(st.Opts))
	for i, k := range st.Opts {
		switch k {
		case 0:
		case 3:
			strs[i] = bsp("k2")
		default:
			strs[i] = bsp("k" + itoa(k))
		}
	}
	variants := []Step{
		{Op: "New", Recv: -1, Data: []ColData{{Name: toBS("K"), Kind: "float", Floats: fl}}},
		{Op: "New", Recv: -1, Data: []ColData{{Name: toBS("K"), Kind: "string", Strs: strs}}},
	}
	if len(hashes)%3 == 0 {
		variants = append(variants, Step{Op: "New", Recv: -1, HasEnums: true, Enums: []EnumDecl{{Name: toBS("K"), Vals: nil}}, Data: []ColData{{Name: toBS("K"), Kind: "string", Strs: strs}}})
	}
	n := 0
	for v := range variants {
		base := len(x.frames) // the family grows by two or three frames per variant
		steps := []Step{variants[v], {Op: "WithRowNums", Recv: base, Dst: toBS("rid")}}
		if st.Other == 1 {
			steps = append(steps, Step{Op: "GroupBy", Recv: base + 1, Cols: bsList([]string{"K"}), Null: st.Null, Rid: toBS("rid")})
		} else {
			steps = append(steps, Step{Op: "Distinct", Recv: base + 1, Cols: bsList([]string{"K"}), Null: st.Null, Rid: toBS("rid")})
		}
		for k := range steps {
			n++
			x.step = n
			if k == 2 {
				grouper.VerifHash = func(i uint32) (uint32, bool) {
					if int(i) < len(hashes) {
						return uint32(hashes[i]), true
					}
					return 0, false
				}
			}
			x.runStep(sc, &steps[k])
			grouper.VerifHash = nil
		}
	}
}
