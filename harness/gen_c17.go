package main

import "fmt"

func init() {
	generators["C17"] = genC17
	generators["C18"] = genC18
}

func enumNames(k int) []string {
	r := make([]string, k)
	for i := range r {
		r[i] = fmt.Sprintf("v%03d", i)
	}
	return r
}

func (g *Gen) perm(ss []string) []string {
	r := make([]string, len(ss))
	for i, j := range g.rng.Perm(len(ss)) {
		r[i] = ss[j]
	}
	return r
}

// enumPaths: every way an enum column comes into being - New from strings, New from a constant, ReadCSV,
// ReadJSON - at cardinalities around the limit of 255, with declared and derived value tables, with and
// without a value outside the declared ones.
func (g *Gen) enumPaths() {
	for _, k := range []int{1, 2, 254, 255, 256, 257, 300} {
		for rep := 0; rep < g.pick(2, 6); rep++ {
			table := g.perm(enumNames(k))
			n := k + g.rng.Intn(6)
			cells := make([]string, n)
			for i := range cells {
				if i < k {
					cells[i] = table[i]
				} else {
					cells[i] = table[g.rng.Intn(k)]
				}
			}
			g.rng.Shuffle(n, func(i, j int) { cells[i], cells[j] = cells[j], cells[i] })
			undecl := rep%2 == 1 // one cell outside the declared values
			for _, declared := range []bool{false, true} {
				if declared && k > 255 {
					continue
				}
				cs := append([]string{}, cells...)
				if declared && undecl {
					cs[g.rng.Intn(n)] = "undeclared"
				}
				var decl []BS
				if declared {
					decl = bsList(table)
				}
				csv, js := "E,A\n", "["
				for i, c := range cs {
					csv += c + "," + itoa(i) + "\n"
					if i > 0 {
						js += ","
					}
					js += `{"E":"` + c + `","A":` + itoa(i) + `}`
				}
				js += "]"
				g.begin("enum paths")
				conf := &CsvConf{HasTypes: true, Types: []TypeDecl{{Name: toBS("E"), Typ: "enum"}}}
				if declared {
					conf.HasEnumVals, conf.EnumVals = true, []EnumDecl{{Name: toBS("E"), Vals: decl}}
				}
				fs := []int{g.do(Step{Op: "ReadCSV", Recv: -1, Doc: toBS(csv), Csv: conf})}
				fs = append(fs, g.do(Step{Op: "ReadJSON", Recv: -1, Doc: toBS(js), HasOrder: true, ColOrder: bsList([]string{"E", "A"}),
					HasEnums: true, Enums: []EnumDecl{{Name: toBS("E"), Vals: decl}}}))
				strs := make([]*BS, n)
				for i, c := range cs {
					strs[i] = bsp(c)
				}
				fs = append(fs, g.do(Step{Op: "New", Recv: -1, HasOrder: true, ColOrder: bsList([]string{"E"}), HasEnums: true,
					Enums: []EnumDecl{{Name: toBS("E"), Vals: decl}}, Data: []ColData{{Name: toBS("E"), Kind: "string", Strs: strs}}}))
				for _, f := range fs {
					if g.frame(f).Err != nil {
						continue
					}
					cl := Clause{K: "leaf", Col: toBS("E"), CmpK: "str", Cmp: "isnull"}
					g.do(Step{Op: "Filter", Recv: f, Clause: &cl})
					cl2 := Clause{K: "leaf", Col: toBS("E"), CmpK: "str", Cmp: ">=", Arg: &Val{T: "string", S: toBS(table[k-1])}}
					g.do(Step{Op: "Filter", Recv: f, Clause: &cl2})
					g.do(Step{Op: "View", Recv: f, Dst: toBS("E")})
				}
				g.end()
			}
		}
	}
	// a constant column typed as enum: declared values containing it or not, derived, null constant
	for _, count := range []int{0, 1, 4} {
		for _, v := range []*BS{bsp("low"), bsp("nope"), bsp(""), nil} {
			for _, decl := range [][]BS{nil, bsList([]string{"low", "mid", "high"}), bsList([]string{"high", "", "low"})} {
				g.begin("enum const")
				f := g.do(Step{Op: "New", Recv: -1, HasOrder: true, ColOrder: bsList([]string{"E", "A"}), HasEnums: true,
					Enums: []EnumDecl{{Name: toBS("E"), Vals: decl}},
					Data:  []ColData{{Name: toBS("E"), Kind: "cstring", Strs: []*BS{v}, Count: count}, {Name: toBS("A"), Kind: "cint", Ints: []int64{3}, Count: count}}})
				if g.frame(f).Err == nil {
					for _, c := range []string{"low", "nope", "mid"} {
						cl := Clause{K: "leaf", Col: toBS("E"), CmpK: "str", Cmp: g.oneOf([]string{"=", "<", ">="}), Arg: &Val{T: "string", S: toBS(c)}}
						g.do(Step{Op: "Filter", Recv: f, Clause: &cl})
					}
					g.do(Step{Op: "Sort", Recv: f, Orders: []Order{{Col: toBS("E")}}})
					g.do(Step{Op: "View", Recv: f, Dst: toBS("E")})
				}
				g.end()
			}
		}
	}
}

// enumConfReuse: one declared-enum configuration for several documents in a row: declared order and
// strictness hold for every one of them
func (g *Gen) enumConfReuse() {
	conf := &CsvConf{HasTypes: true, Types: []TypeDecl{{Name: toBS("d"), Typ: "enum"}}, HasEnumVals: true,
		EnumVals: []EnumDecl{{Name: toBS("d"), Vals: bsList([]string{"wed", "tue", "mon"})}}}
	docs := []string{"d,n\nmon,1\ntue,2\nwed,3\n", "d,n\nwed,1\nmon,2\ntue,7\n", "d,n\ntue,5\nsun,6\n", "d,n\nmon,1\nwed,3\n"}
	g.begin("enum configuration reused")
	for _, d := range docs {
		f := g.do(Step{Op: "ReadCSV", Recv: -1, Doc: toBS(d), Csv: conf})
		if g.frame(f).Err != nil {
			continue
		}
		g.do(Step{Op: "Sort", Recv: f, Orders: []Order{{Col: toBS("d")}}})
		for _, c := range []string{"tue", "sun"} {
			cl := Clause{K: "leaf", Col: toBS("d"), CmpK: "str", Cmp: "<", Arg: &Val{T: "string", S: toBS(c)}}
			g.do(Step{Op: "Filter", Recv: f, Clause: &cl})
		}
	}
	g.end()
}

// enumSeparators: declared value lists that differ but read the same when joined by a separator
func (g *Gen) enumSeparators() {
	pairs := [][2][]string{{{"x,y", "z"}, {"x", "y,z"}}, {{"p", "q"}, {"p,q"}}, {{"a|b", "c"}, {"a", "b|c"}}, {{"a\x00b"}, {"a", "b"}}, {{"a b", "c"}, {"a", "b c"}}}
	for _, pr := range pairs {
		g.begin("enum separators")
		for rep := 0; rep < 2; rep++ {
			for _, decl := range pr {
				strs := []*BS{}
				for _, v := range decl {
					strs = append(strs, bsp(v))
				}
				strs = append(strs, bsp(decl[0]), nil)
				f := g.do(Step{Op: "New", Recv: -1, HasOrder: true, ColOrder: bsList([]string{"E"}), HasEnums: true,
					Enums: []EnumDecl{{Name: toBS("E"), Vals: bsList(decl)}}, Data: []ColData{{Name: toBS("E"), Kind: "string", Strs: strs}}})
				if g.frame(f).Err == nil {
					g.do(Step{Op: "Sort", Recv: f, Orders: []Order{{Col: toBS("E")}}})
					g.do(Step{Op: "ToCSV", Recv: f})
					g.do(Step{Op: "ReadCSV", Other: f + 1, Csv: &CsvConf{HasTypes: true, Types: []TypeDecl{{Name: toBS("E"), Typ: "enum"}}, HasEnumVals: true, EnumVals: []EnumDecl{{Name: toBS("E"), Vals: bsList(decl)}}}})
				}
				// a value of the OTHER list is undeclared here
				other := pr[0]
				if &decl[0] == &pr[0][0] {
					other = pr[1]
				}
				g.do(Step{Op: "New", Recv: -1, HasOrder: true, ColOrder: bsList([]string{"E"}), HasEnums: true,
					Enums: []EnumDecl{{Name: toBS("E"), Vals: bsList(decl)}}, Data: []ColData{{Name: toBS("E"), Kind: "string", Strs: []*BS{bsp(other[len(other)-1])}}}})
			}
		}
		g.end()
	}
}

func genC17(g *Gen) {
	g.arrangedFrames("enum arranged", func(f int) {
		for _, col := range []string{"E", "X"} {
			for _, cmp := range []string{"<", "<=", ">", ">=", "=", "!="} {
				c := g.oneOf([]string{"lo", "mid", "hi"})
				if col == "X" {
					c = g.oneOf([]string{"x0", "x1", "x2", "x3"})
				}
				cl := Clause{K: "leaf", Col: toBS(col), CmpK: "str", Cmp: cmp, Arg: &Val{T: "string", S: toBS(c)}, Inv: g.rng.Intn(6) == 0}
				g.do(Step{Op: "Filter", Recv: f, Clause: &cl})
			}
			cl := Clause{K: "leaf", Col: toBS(col), CmpK: "str", Cmp: "in", Arg: &Val{T: "strs", L: []Val{{T: "string", S: toBS("mid")}, {T: "string", S: toBS("x1")}}}}
			g.do(Step{Op: "Filter", Recv: f, Clause: &cl})
			cl2 := Clause{K: "leaf", Col: toBS(col), CmpK: "str", Cmp: g.oneOf([]string{"isnull", "isnotnull"})}
			g.do(Step{Op: "Filter", Recv: f, Clause: &cl2})
			g.do(Step{Op: "Sort", Recv: f, Orders: []Order{{Col: toBS(col), Rev: g.rng.Intn(2) == 0, NullLast: g.rng.Intn(2) == 0}, {Col: toBS("I")}}})
			g.do(Step{Op: "Distinct", Recv: f, Cols: bsList([]string{col}), Null: true})
		}
		clc := Clause{K: "leaf", Col: toBS("E"), CmpK: "str", Cmp: g.oneOf([]string{"<", "=", ">="}), Arg: &Val{T: "col", S: toBS("E")}}
		g.do(Step{Op: "Filter", Recv: f, Clause: &clc})
	})
	g.enumPaths()
	g.enumSeparators()
	g.enumConfReuse()
	rid := toBS("rid")
	cards := []int{1, 2, 3, 5, 63, 64, 65, 127, 128, 129, 191, 192, 193, 253, 254, 255, 256, 300}
	ord := []string{"<", "<=", ">", ">=", "=", "!="}
	for rep := 0; rep < g.pick(3, 40); rep++ {
		for _, k := range cards {
			declared := g.rng.Intn(3) != 0 // else derived from the data
			table := g.perm(enumNames(k))  // declared order differs from the alphabet
			n := []int{0, 1, 3, 10, 40, 150, 600}[g.rng.Intn(g.pick(6, 7))]
			if !declared && n < k {
				n = k + g.rng.Intn(20) // make the derived cardinality reach k
			}
			vals := make([]*BS, n)
			for i := range vals {
				switch {
				case !declared && i < k:
					vals[i] = bsp(table[i]) // every value occurs: derived cardinality = k
				case g.rng.Intn(10) == 0:
					vals[i] = nil
				case declared && g.rng.Intn(60) == 0 && rep%2 == 1:
					vals[i] = bsp("undeclared")
				default:
					vals[i] = bsp(table[g.rng.Intn(len(table))])
				}
			}
			g.begin("enum")
			st := Step{Op: "New", Recv: -1, HasOrder: true, ColOrder: bsList([]string{"E", "D", "S"}), HasEnums: true}
			dvals := make([]*BS, n)
			for i := range dvals {
				if g.rng.Intn(8) != 0 {
					dvals[i] = bsp(table[g.rng.Intn(len(table))])
				}
			}
			st.Data = []ColData{{Name: toBS("E"), Kind: "string", Strs: vals}, {Name: toBS("D"), Kind: "string", Strs: dvals}, {Name: toBS("S"), Kind: "string", Strs: vals}}
			if declared {
				st.Enums = []EnumDecl{{Name: toBS("E"), Vals: bsList(table)}, {Name: toBS("D"), Vals: bsList(table)}}
			} else {
				st.Enums = []EnumDecl{{Name: toBS("E"), Vals: nil}, {Name: toBS("D"), Vals: bsList(table)}}
			}
			f := g.do(st)
			if g.frame(f).Err != nil {
				g.do(Step{Op: "Sort", Recv: f, Orders: []Order{{Col: toBS("E")}}}) // stays an error
				g.end()
				continue
			}
			if n <= 150 && g.rng.Intn(2) == 0 {
				f = g.derive(f)
			}
			f = g.do(Step{Op: "WithRowNums", Recv: f, Dst: rid})
			// constants at the ranks where the 256-bit set changes word, first, last, undeclared
			ranks := []int{0, 1, 62, 63, 64, 65, 126, 127, 128, 129, 190, 191, 192, 193, 253, 254}
			pickVal := func() string {
				if g.rng.Intn(8) == 0 {
					return "undeclared"
				}
				r := ranks[g.rng.Intn(len(ranks))]
				if r >= len(table) {
					r = g.rng.Intn(len(table))
				}
				return table[r]
			}
			for q := 0; q < g.pick(6, 10); q++ {
				col := []string{"E", "E", "D", "S"}[g.rng.Intn(4)]
				var cl Clause
				switch g.rng.Intn(7) {
				case 0, 1, 2:
					cl = Clause{K: "leaf", Col: toBS(col), CmpK: "str", Cmp: g.oneOf(ord), Arg: &Val{T: "string", S: toBS(pickVal())}, Inv: g.rng.Intn(4) == 0}
				case 3:
					l := []Val{}
					for j := g.rng.Intn(5); j > 0; j-- {
						l = append(l, Val{T: "string", S: toBS(pickVal())})
					}
					cl = Clause{K: "leaf", Col: toBS(col), CmpK: "str", Cmp: "in", Arg: &Val{T: "strs", L: l}, Inv: g.rng.Intn(4) == 0}
				case 4:
					cl = Clause{K: "leaf", Col: toBS(col), CmpK: "str", Cmp: g.oneOf([]string{"like", "ilike"}), Arg: &Val{T: "string", S: toBS(g.oneOf([]string{"v1%", "%5", "%25%", "V0%", "v06_", "v.6.", pickVal()}))}}
				case 5:
					cl = Clause{K: "leaf", Col: toBS("E"), CmpK: "str", Cmp: g.oneOf(ord), Arg: &Val{T: "col", S: toBS(g.oneOf([]string{"D", "E", "S"}))}}
				default:
					cl = Clause{K: "leaf", Col: toBS(col), CmpK: "str", Cmp: g.oneOf([]string{"isnull", "isnotnull"})}
				}
				g.do(Step{Op: "Filter", Recv: f, Clause: &cl})
			}
			for q := 0; q < 2; q++ {
				g.do(Step{Op: "Sort", Recv: f, Orders: []Order{{Col: toBS(g.oneOf([]string{"E", "D"})), Rev: g.rng.Intn(2) == 0, NullLast: g.rng.Intn(2) == 0}, {Col: toBS("S")}}, Rid: rid})
			}
			g.do(Step{Op: "Distinct", Recv: f, Cols: bsList([]string{"E"}), Null: g.rng.Intn(2) == 0, Rid: rid})
			if g.rng.Intn(2) == 0 {
				g.do(Step{Op: "GroupBy", Recv: f, Cols: bsList([]string{"E"}), Null: true, Rid: rid})
				g.do(Step{Op: "Aggregate", Recv: len(g.x.groupers) - 1, Aggs: []Agg{{Fn: FnRef{K: "builtin", Sym: "count"}, Col: toBS("S")}}})
				// the aggregate's enum key keeps its table: declared order and strictness
				a := len(g.x.frames) - 1
				cl := Clause{K: "leaf", Col: toBS("E"), CmpK: "str", Cmp: g.oneOf(ord), Arg: &Val{T: "string", S: toBS(pickVal())}}
				g.do(Step{Op: "Filter", Recv: a, Clause: &cl})
				clu := Clause{K: "leaf", Col: toBS("E"), CmpK: "str", Cmp: g.oneOf(ord), Arg: &Val{T: "string", S: toBS("undeclared")}}
				g.do(Step{Op: "Filter", Recv: a, Clause: &clu})
				g.do(Step{Op: "Sort", Recv: a, Orders: []Order{{Col: toBS("E")}}})
			}
			g.end()
		}
	}
}

// C18: cells and patterns are valid UTF-8; code points whose upper case has another byte length
// (U+0131 -> I, U+017F -> S, U+0250 -> U+2C6F), C1 controls (U+0080), lengths around the matcher's
// 10-byte buffer and its doublings; the same values in a string and in an enum column.
var likeAtoms = []string{"\u212a", "k", "K", "\u2126", "ω", "Ω", "\u212b", "å", "ẞ", "i", "I", "a", "B", "z", "é", "É", "ı", "ſ", "ɐ", "Ɐ", "\u0080", "ß", "ǆ", "ǅ", "Σ", "ς", "%", "_", "0", " ", "δ"}

func (g *Gen) likeString(maxAtoms int) string {
	s := ""
	for k := g.rng.Intn(maxAtoms + 1); k > 0; k-- {
		s += likeAtoms[g.rng.Intn(len(likeAtoms))]
	}
	return s
}

// likeSmall: every arrangement of {"", null, "x", "X"} in up to 4 rows x patterns that match the empty
// string, a literal, a prefix ... x like / ilike, on a string, a derived enum and a declared enum column
func (g *Gen) likeSmall() {
	cells := []*BS{bsp(""), nil, bsp("x"), bsp("X")}
	if g.rng.Intn(2) == 0 { // code points whose case folding and upper-casing differ
		cells = []*BS{bsp("\u212a"), bsp("k"), bsp("ß"), bsp("ı")}
	}
	pats := []string{"%", "%%", "", ".*", "x", "x%", "%x", "X", "[xy]?", "nope", "%nope%", "k", "K", "\u212a", "ss", "ẞ", "i", "I"}
	for n := 1; n <= 4; n++ {
		total := 1
		for i := 0; i < n; i++ {
			total *= len(cells)
		}
		for code := 0; code < total; code++ {
			if n == 4 && !g.thorough() && g.rng.Intn(4) != 0 {
				continue
			}
			vals := make([]*BS, n)
			c := code
			for i := range vals {
				vals[i] = cells[c%len(cells)]
				c /= len(cells)
			}
			declS := []string{"unused"}
			for _, c := range cells {
				if c != nil {
					declS = append(declS, c.String())
				}
			}
			g.begin("like small")
			f := g.do(Step{Op: "New", Recv: -1, HasOrder: true, ColOrder: bsList([]string{"S", "X", "D"}), HasEnums: true,
				Enums: []EnumDecl{{Name: toBS("X"), Vals: nil}, {Name: toBS("D"), Vals: bsList(declS)}},
				Data:  []ColData{{Name: toBS("S"), Kind: "string", Strs: vals}, {Name: toBS("X"), Kind: "string", Strs: vals}, {Name: toBS("D"), Kind: "string", Strs: vals}}})
			for k := 0; k < 4; k++ {
				pat := pats[g.rng.Intn(len(pats))]
				cmp := g.oneOf([]string{"like", "ilike"})
				for _, col := range []string{"S", "X", "D"} {
					cl := Clause{K: "leaf", Col: toBS(col), CmpK: "str", Cmp: cmp, Arg: &Val{T: "string", S: toBS(pat)}}
					g.do(Step{Op: "Filter", Recv: f, Clause: &cl})
				}
			}
			g.end()
		}
	}
}

// likeExhaustive: every pattern of up to 3 (4 thorough) characters over {a, A, b, %, .} against a column
// holding every string of up to 2 characters over {a, A, b}, some longer ones, "" and null - as a string
// column, a derived enum and a declared enum - under like and ilike
func (g *Gen) likeExhaustive() {
	alpha := []string{"a", "A", "b", "%", "."}
	cellAlpha := []string{"a", "A", "b"}
	cells := []*BS{nil, bsp("")}
	var words []string
	for _, x := range cellAlpha {
		words = append(words, x)
		for _, y := range cellAlpha {
			words = append(words, x+y)
		}
	}
	words = append(words, "aab", "aba", "Abb", "bAa", "abA")
	decl := []string{"unused"}
	for _, w := range words {
		cells = append(cells, bsp(w))
		decl = append(decl, w)
	}
	decl = append(decl, "")
	pats := []string{""}
	frontier := []string{""}
	for l := 1; l <= g.pick(3, 4); l++ {
		next := []string{}
		for _, p := range frontier {
			for _, a := range alpha {
				next = append(next, p+a)
			}
		}
		pats = append(pats, next...)
		frontier = next
	}
	per := 12
	for i := 0; i < len(pats); i += per {
		g.begin("like exhaustive")
		f := g.do(Step{Op: "New", Recv: -1, HasOrder: true, ColOrder: bsList([]string{"S", "X", "D"}), HasEnums: true,
			Enums: []EnumDecl{{Name: toBS("X"), Vals: nil}, {Name: toBS("D"), Vals: bsList(decl)}},
			Data:  []ColData{{Name: toBS("S"), Kind: "string", Strs: cells}, {Name: toBS("X"), Kind: "string", Strs: cells}, {Name: toBS("D"), Kind: "string", Strs: cells}}})
		for _, p := range pats[i:minI(i+per, len(pats))] {
			for _, cmp := range []string{"like", "ilike"} {
				col := []string{"S", "X", "D"}[g.rng.Intn(3)]
				if g.thorough() {
					for _, c := range []string{"S", "X", "D"} {
						cl := Clause{K: "leaf", Col: toBS(c), CmpK: "str", Cmp: cmp, Arg: &Val{T: "string", S: toBS(p)}}
						g.do(Step{Op: "Filter", Recv: f, Clause: &cl})
					}
					continue
				}
				cl := Clause{K: "leaf", Col: toBS(col), CmpK: "str", Cmp: cmp, Arg: &Val{T: "string", S: toBS(p)}}
				g.do(Step{Op: "Filter", Recv: f, Clause: &cl})
			}
		}
		g.end()
	}
}

func genC18(g *Gen) {
	g.likeSmall()
	g.likeExhaustive()
	for rep := 0; rep < g.pick(60, 1500); rep++ {
		n := []int{1, 3, 8, 20, 60}[g.rng.Intn(5)]
		pool := []string{}
		for i := 0; i < 6+g.rng.Intn(10); i++ {
			pool = append(pool, g.likeString([]int{2, 4, 7, 12, 25}[g.rng.Intn(5)]))
		}
		vals := make([]*BS, n)
		for i := range vals {
			if g.rng.Intn(10) != 0 {
				vals[i] = bsp(pool[g.rng.Intn(len(pool))])
			}
		}
		g.begin("like")
		// D: the same cells as an enum with DECLARED values (the pool, duplicates removed, plus one unused)
		decl, seenD := []string{"unused"}, map[string]bool{"unused": true}
		for _, p := range pool {
			if !seenD[p] {
				seenD[p] = true
				decl = append(decl, p)
			}
		}
		f := g.do(Step{Op: "New", Recv: -1, HasOrder: true, ColOrder: bsList([]string{"S", "X", "D"}), HasEnums: true,
			Enums: []EnumDecl{{Name: toBS("X"), Vals: nil}, {Name: toBS("D"), Vals: bsList(decl)}},
			Data:  []ColData{{Name: toBS("S"), Kind: "string", Strs: vals}, {Name: toBS("X"), Kind: "string", Strs: vals}, {Name: toBS("D"), Kind: "string", Strs: vals}}})
		if g.rng.Intn(3) == 0 {
			f = g.derive(f)
		}
		for q := 0; q < 5; q++ {
			// pattern: a piece of an existing cell (so that matches occur) or random, with % at either end or not
			base := pool[g.rng.Intn(len(pool))]
			if len(base) > 0 && g.rng.Intn(2) == 0 {
				rs := []rune(base)
				a := g.rng.Intn(len(rs))
				b := a + g.rng.Intn(len(rs)-a+1)
				base = string(rs[a:b])
			} else if g.rng.Intn(4) == 0 {
				base = g.likeString(4)
			}
			switch g.rng.Intn(9) {
			case 0:
				base = "%" + base
			case 1:
				base = base + "%"
			case 2, 3:
				base = "%" + base + "%"
			case 4:
				base = g.oneOf([]string{"", "%", "%%", "%%%"})
			case 5:
				base = g.oneOf([]string{"a.", ".*", "a|é", "(", "[a-z", "%a+", "b?%", "^a", "a$", "\\d", "ı+", "%ß.%", "(?i)a"})
			}
			if g.rng.Intn(6) == 0 {
				base = upperLower(base, g.rng.Intn(2) == 0)
			}
			cmp := g.oneOf([]string{"like", "ilike", "ilike"})
			for _, col := range []string{"S", "X", "D"} {
				cl := Clause{K: "leaf", Col: toBS(col), CmpK: "str", Cmp: cmp, Arg: &Val{T: "string", S: toBS(base)}, Inv: g.rng.Intn(6) == 0}
				g.do(Step{Op: "Filter", Recv: f, Clause: &cl})
			}
			if q < 2 {
				// the same pattern text under both comparators, one after the other: what one call leaves
				// behind must not decide the other. The pattern is a cell in the other case with one
				// character replaced by a regex wildcard, so that the case rule decides the outcome.
				pat := upperLower(pool[g.rng.Intn(len(pool))], g.rng.Intn(2) == 0)
				if rs := []rune(pat); len(rs) > 0 {
					rs[g.rng.Intn(len(rs))] = '.'
					pat = string(rs)
				} else {
					pat = "a."
				}
				pat = g.oneOf([]string{"", "%"}) + pat + g.oneOf([]string{"", "%"})
				seq := [][]string{{"like", "ilike", "like"}, {"ilike", "like", "ilike"}}[g.rng.Intn(2)]
				col := g.oneOf([]string{"S", "X", "D"})
				for _, c := range seq {
					cl := Clause{K: "leaf", Col: toBS(col), CmpK: "str", Cmp: c, Arg: &Val{T: "string", S: toBS(pat)}}
					g.do(Step{Op: "Filter", Recv: f, Clause: &cl})
				}
			}
		}
		g.end()
	}
	g.likeByteSiblings()
}

// likeByteSiblings: literal matching is on whole characters, not on bytes. Cells and pattern bodies are single
// characters (and pairs) drawn from groups that share their UTF-8 lead byte (é ä É ö: 0xC3), their continuation
// byte (é U+00E9 / ĩ U+0129 / ũ U+0169: 0xA9), or both ends of a longer sequence (€ ₭, 漢 漣, 𝄞 𝄟); every body
// under every % form, like and ilike, string and enum column.
func (g *Gen) likeByteSiblings() {
	groups := [][]string{{"é", "ä", "É", "ö", "ĩ", "ũ", "e"}, {"€", "₭", "‚", "a€"}, {"漢", "漣", "㼢"}, {"𝄞", "𝄟", "𝅘", "🄞"}}
	for _, grp := range groups {
		cells := []*BS{nil}
		for _, a := range grp {
			cells = append(cells, bsp(a), bsp("x"+a+"y"), bsp(a+a))
			for _, b := range grp {
				if a != b {
					cells = append(cells, bsp(a+b))
				}
			}
		}
		g.begin("like byte siblings")
		f := g.do(Step{Op: "New", Recv: -1, HasOrder: true, ColOrder: bsList([]string{"S", "X"}), HasEnums: true,
			Enums: []EnumDecl{{Name: toBS("X"), Vals: nil}},
			Data:  []ColData{{Name: toBS("S"), Kind: "string", Strs: cells}, {Name: toBS("X"), Kind: "string", Strs: cells}}})
		for _, body := range append(append([]string{}, grp...), grp[0]+grp[1], grp[1]+grp[0]) {
			for _, pat := range []string{body, "%" + body, body + "%", "%" + body + "%"} {
				for _, cmp := range []string{"like", "ilike"} {
					for _, col := range []string{"S", "X"} {
						cl := Clause{K: "leaf", Col: toBS(col), CmpK: "str", Cmp: cmp, Arg: &Val{T: "string", S: toBS(pat)}}
						g.do(Step{Op: "Filter", Recv: f, Clause: &cl})
					}
				}
			}
		}
		g.end()
	}
}

func upperLower(s string, up bool) string {
	r := []rune(s)
	for i, c := range r {
		if up && c >= 'a' && c <= 'z' {
			r[i] = c - 32
		} else if !up && c >= 'A' && c <= 'Z' {
			r[i] = c + 32
		}
	}
	return string(r)
}
