package main

import (
	"math"
	"strconv"

	"github.com/tobgu/qframe"
)

// refText: [1] for null, [0, bytes...] for the text strconv gives (the reference named by C09/C13/C16).
func refText(v GV) BS {
	switch t := v.(type) {
	case int:
		return append(BS{0}, toBS(strconv.FormatInt(int64(t), 10))...)
	case float64:
		if math.IsNaN(t) {
			return BS{1}
		}
		return append(BS{0}, toBS(strconv.FormatFloat(t, 'f', -1, 64))...)
	case bool:
		return append(BS{0}, toBS(strconv.FormatBool(t))...)
	case *string:
		if t == nil {
			return BS{1}
		}
		return append(BS{0}, toBS(*t)...)
	}
	return BS{1}
}

func (x *Exec) dispatchIO2(st *Step, ev Ev) {
	switch st.Op {
	case "Scribble":
		// the slices handed out by View.Slice() belong to the caller: overwrite them
		qf := x.frame(st.Recv)
		scribble(qf)
		ev["a"] = Ev{"_": 0}
	case "TypedView":
		// the non-panicking view constructors: an error exactly for a missing column or another type
		qf := x.frame(st.Recv)
		name := st.Dst.String()
		var err error
		n := -1
		switch st.Fl {
		case "int":
			v, e := qf.IntView(name)
			if err = e; e == nil {
				n = v.Len()
			}
		case "float":
			v, e := qf.FloatView(name)
			if err = e; e == nil {
				n = v.Len()
			}
		case "bool":
			v, e := qf.BoolView(name)
			if err = e; e == nil {
				n = v.Len()
			}
		case "string":
			v, e := qf.StringView(name)
			if err = e; e == nil {
				n = v.Len()
			}
		default:
			v, e := qf.EnumView(name)
			if err = e; e == nil {
				n = v.Len()
			}
		}
		ev["a"] = Ev{"col": st.Dst, "typ": st.Fl}
		ev["res"] = b2i(err != nil)
		ev["vlen"] = n
	case "View":
		qf := x.frame(st.Recv)
		name := st.Dst.String()
		var rd func() []Cell
		switch colType(qf, name) {
		case "int":
			v := qf.MustIntView(name)
			rd = func() []Cell { r := []Cell{}; for i := 0; i < v.Len(); i++ { r = append(r, encInt(v.ItemAt(i))) }; return r }
		case "float":
			v := qf.MustFloatView(name)
			rd = func() []Cell { r := []Cell{}; for i := 0; i < v.Len(); i++ { r = append(r, encFloat(v.ItemAt(i))) }; return r }
		case "bool":
			v := qf.MustBoolView(name)
			rd = func() []Cell { r := []Cell{}; for i := 0; i < v.Len(); i++ { r = append(r, encBool(v.ItemAt(i))) }; return r }
		case "string":
			v := qf.MustStringView(name)
			rd = func() []Cell { r := []Cell{}; for i := 0; i < v.Len(); i++ { r = append(r, encPStr(v.ItemAt(i))) }; return r }
		case "enum":
			v := qf.MustEnumView(name)
			rd = func() []Cell { r := []Cell{}; for i := 0; i < v.Len(); i++ { r = append(r, encPStr(v.ItemAt(i))) }; return r }
		default:
			rd = func() []Cell { return []Cell{} }
		}
		x.views = append(x.views, rd)
		cells := rd()
		ev["a"] = Ev{"col": st.Dst}
		ev["vout"] = len(x.views) - 1
		ev["vcells"] = cells
		ev["vdig"] = cellsDigest(cells)
	default:
		panic("io op not implemented: " + st.Op)
	}
}

func cellsDigest(cells []Cell) int {
	return digest(Obs{Len: len(cells), Names: []BS{}, Types: []string{}, Cols: [][]Cell{cells}})
}

func scribble(qf qframe.QFrame) {
	if qf.Err != nil {
		return
	}
	zap := "zap"
	for _, n := range qf.ColumnNames() {
		switch colType(qf, n) {
		case "int":
			s := qf.MustIntView(n).Slice()
			for i := range s {
				s[i] = -77
			}
		case "float":
			s := qf.MustFloatView(n).Slice()
			for i := range s {
				s[i] = math.NaN()
			}
		case "bool":
			s := qf.MustBoolView(n).Slice()
			for i := range s {
				s[i] = !s[i]
			}
		case "string":
			s := qf.MustStringView(n).Slice()
			for i := range s {
				s[i] = &zap
			}
		case "enum":
			s := qf.MustEnumView(n).Slice()
			for i := range s {
				s[i] = &zap
			}
		}
	}
}
