package main

import (
	"math/big"
	"database/sql/driver"
	"math"
	"strconv"

	"github.com/tobgu/qframe"
	qsql "github.com/tobgu/qframe/config/sql"
)

// SqlVal: a cell of a result set in scenario notation
type SqlVal struct {
	T string `json:"t"` // null int float bool string bytes
	I int64  `json:"i,omitempty"`
	F string `json:"f,omitempty"`
	B bool   `json:"b,omitempty"`
	S BS     `json:"s,omitempty"`
}

func (v SqlVal) drv() driver.Value {
	switch v.T {
	case "int":
		return v.I
	case "float":
		return parseFloat(v.F)
	case "bool":
		return v.B
	case "string":
		return v.S.String()
	case "bytes":
		return []byte(v.S.String())
	}
	return nil
}

func (c *SqlConf) opts(query string) []qsql.ConfigFunc {
	opts := []qsql.ConfigFunc{qsql.Query(query)}
	if c == nil {
		return opts
	}
	if c.Table != "" {
		opts = append(opts, qsql.Table(c.Table))
	}
	if !c.PresetLast {
		switch c.Dialect {
		case "postgres":
			opts = append(opts, qsql.Postgres())
		case "sqlite":
			opts = append(opts, qsql.SQLite())
		case "mysql":
			opts = append(opts, qsql.MySQL())
		}
	}
	if c.Escape != 0 {
		opts = append(opts, qsql.EscapeChar(rune(c.Escape)))
	}
	if c.Incr {
		opts = append(opts, qsql.Incrementing())
	}
	if c.Precision != 0 {
		opts = append(opts, qsql.Precision(c.Precision))
	}
	if len(c.CoerceNames) > 0 {
		pairs := []qsql.CoercePair{}
		for i, n := range c.CoerceNames {
			k := qsql.Int64ToBool
			if c.CoerceKinds[i] == 2 {
				k = qsql.StringToFloat
			}
			pairs = append(pairs, qsql.CoercePair{Column: n.String(), Type: k})
		}
		opts = append(opts, qsql.Coerce(pairs...))
	}
	if c.PresetLast {
		switch c.Dialect {
		case "postgres":
			opts = append(opts, qsql.Postgres())
		case "sqlite":
			opts = append(opts, qsql.SQLite())
		case "mysql":
			opts = append(opts, qsql.MySQL())
		}
	}
	return opts
}

func (c *SqlConf) tla() Ev {
	if c == nil {
		c = &SqlConf{}
	}
	esc, incr := c.Escape, c.Incr
	switch c.Dialect {
	case "postgres":
		if esc == 0 {
			esc = '"'
		}
		incr = true
	case "sqlite":
		if esc == 0 {
			esc = '"'
		}
	case "mysql":
		if esc == 0 {
			esc = '`'
		}
	}
	co := []Ev{}
	for i, n := range c.CoerceNames {
		co = append(co, Ev{"name": n, "kind": c.CoerceKinds[i]})
	}
	return Ev{"table": toBS(c.Table), "escape": esc, "incr": b2i(incr), "precision": c.Precision, "coerce": co}
}

const readQuery = "SELECT * FROM t"

func (x *Exec) sqlOps(st *Step, ev Ev) {
	mdb, h := newMemDB()
	defer h.Close()
	tx, err := h.Begin()
	if err != nil {
		panic(err)
	}
	defer tx.Rollback()
	if st.Fault != nil && st.Fault.Kind == "driver" {
		mdb.failAt = st.Fault.At
	}
	switch st.Op {
	case "ToSQL":
		qf := x.frame(st.Recv)
		mdb.calls = nil
		mdb.ncall = 0
		err := qf.ToSQL(tx, st.Sql.opts("")...)
		ev["a"] = Ev{"conf": st.Sql.tla()}
		ev["err"] = b2i(err != nil)
		ev["fired"] = b2i(mdb.fired)
		ev["dcalls"] = callsTla(mdb.calls)
		x.lastStore = mdb.stored
		x.lastStoreNames = nil
		if qf.Err == nil {
			x.lastStoreNames = qf.ColumnNames()
		}
	case "ReadSQL":
		// result set: given explicitly, or what the last ToSQL stored (round trip)
		names := []string{}
		rows := [][]driver.Value{}
		rt := -1
		if st.Other > 0 {
			rt = st.Other - 1
			names = x.lastStoreNames
			rows = x.lastStore
		} else {
			names = strList(st.Cols)
			for _, r := range st.Rs {
				row := []driver.Value{}
				for _, v := range r {
					row = append(row, v.drv())
				}
				rows = append(rows, row)
			}
		}
		mdb.rsNames, mdb.rsRows = names, rows
		mdb.calls = nil
		mdb.ncall = 0
		rsEv := [][]Ev{}
		fl := [][]Cell{}
		fr := [][]Cell{}
		seenF := map[uint64]bool{}
		prec := 0
		if st.Sql != nil {
			prec = st.Sql.Precision
		}
		addRound := func(f float64) {
			if prec <= 0 || seenF[math.Float64bits(f)] {
				return
			}
			seenF[math.Float64bits(f)] = true
			row := []Cell{encFloat(f)}
			for _, r := range roundRef(f, prec) {
				row = append(row, encFloat(r))
			}
			fr = append(fr, row)
		}
		seen := map[string]bool{}
		for _, r := range rows {
			re := []Ev{}
			for _, v := range r {
				re = append(re, sqlVal(v))
				if f, ok := v.(float64); ok {
					addRound(f)
				}
				if s, ok := v.(string); ok && !seen[s] { // reference for the StringToFloat coercion
					seen[s] = true
					if f, err := strconv.ParseFloat(s, 64); err == nil {
						addRound(f)
						if math.IsNaN(f) {
							fl = append(fl, []Cell{encStr(s), {5}})
						} else {
							fl = append(fl, []Cell{encStr(s), encFloat(f)})
						}
					} else {
						fl = append(fl, []Cell{encStr(s), {1}})
					}
				}
			}
			rsEv = append(rsEv, re)
		}
		ev["a"] = Ev{"conf": st.Sql.tla(), "names": bsList(names), "rows": rsEv, "rt": rt, "fparse": fl, "fround": fr, "query": toBS(readQuery)}
		qf := qframe.ReadSQL(tx, st.Sql.opts(readQuery)...)
		ev["fired"] = b2i(mdb.fired)
		ev["dcalls"] = callsTla(mdb.calls)
		x.result(ev, qf)
	}
}

// roundRef: the admissible results of rounding x to p decimals (Sql.tla, Precision), computed exactly:
// k = x*10^p rounded half away from zero, result = the binary64 nearest to k/10^p. Where x*10^p is within
// 1e-6 of a tie both neighbours of the tie are admissible; beyond 2^31 the neighbouring floats of the
// result are too (the documentation does not fix the last bit there); a zero result may carry either sign.
func roundRef(x float64, p int) []float64 {
	if math.IsNaN(x) || math.IsInf(x, 0) {
		return []float64{x}
	}
	scale := new(big.Rat).SetInt(new(big.Int).Exp(big.NewInt(10), big.NewInt(int64(p)), nil))
	xs := new(big.Rat).Mul(new(big.Rat).SetFloat64(x), scale)
	// floor and fraction
	fl := new(big.Int).Div(xs.Num(), xs.Denom()) // Euclidean division: floor for a positive denominator
	frac := new(big.Rat).Sub(xs, new(big.Rat).SetInt(fl))
	half := big.NewRat(1, 2)
	eps := big.NewRat(1, 1000000)
	up := new(big.Int).Add(fl, big.NewInt(1))
	toF := func(k *big.Int) float64 {
		f, _ := new(big.Rat).Quo(new(big.Rat).SetInt(k), scale).Float64()
		return f
	}
	d := new(big.Rat).Sub(frac, half)
	tie := new(big.Rat).Abs(d).Cmp(eps) <= 0
	if d.Sign() == 0 {
		// an exact tie (x*10^p = k + 1/2 exactly): rounding goes away from zero, as math.Round does
		tie = false
		if xs.Sign() < 0 {
			d = big.NewRat(-1, 1) // floor is the one further from zero
		} else {
			d = big.NewRat(1, 1)
		}
	}
	var ks []*big.Int
	switch {
	case tie:
		ks = []*big.Int{fl, up}
	case d.Sign() > 0:
		ks = []*big.Int{up}
	default:
		ks = []*big.Int{fl}
	}
	big31 := new(big.Rat).SetInt64(1 << 31)
	wide := new(big.Rat).Abs(xs).Cmp(big31) >= 0
	out := []float64{}
	add := func(f float64) {
		for _, o := range out {
			if math.Float64bits(o) == math.Float64bits(f) {
				return
			}
		}
		out = append(out, f)
	}
	for _, k := range ks {
		f := toF(k)
		add(f)
		if f == 0 {
			add(math.Copysign(0, -1))
			add(0)
		}
		if wide {
			add(math.Nextafter(f, math.Inf(1)))
			add(math.Nextafter(f, math.Inf(-1)))
		}
	}
	return out
}
