package main

import (
	"bytes"
	"math"
	"strconv"

	"github.com/tobgu/qframe"
	"github.com/tobgu/qframe/internal/ryu"
	"github.com/tobgu/qframe/types"
)

// floatParts: x = m * 2^e with m the integer significand, as limbs base 10^4 (little endian).
func floatParts(f float64) (kind string, neg int, limbs []int, e int, low int) {
	u := math.Float64bits(f)
	neg = int(u >> 63)
	mant := u & (1<<52 - 1)
	exp := int((u >> 52) & 0x7ff)
	switch {
	case exp == 0x7ff:
		return "inf", neg, []int{}, 0, 0
	case exp == 0 && mant == 0:
		return "zero", neg, []int{}, 0, 0
	}
	var m uint64
	if exp == 0 {
		m, e = mant, -1074
	} else {
		m, e = mant|1<<52, exp-1075
		if mant == 0 && exp > 1 {
			low = 1
		}
	}
	for m > 0 {
		limbs = append(limbs, int(m%10000))
		m /= 10000
	}
	return "finite", neg, limbs, e, low
}

func (x *Exec) floatEvent(ev Ev, f float64, prefix, out []byte) {
	kind, neg, limbs, e, low := floatParts(f)
	ev["kind"], ev["neg"], ev["m"], ev["e"], ev["low"] = kind, neg, limbs, e, low
	ev["prefix"], ev["out"] = bytesBS(prefix), bytesBS(out)
	ev["ref"] = toBS(strconv.FormatFloat(f, 'f', -1, 64))
	ev["bits"] = fmtFloat(f)
}

func (x *Exec) floatOps(st *Step, ev Ev) {
	ev["a"] = Ev{"_": 0}
	switch st.Op {
	case "FloatFmt":
		f := parseFloat(st.Fl)
		// destination buffer: st.A bytes of content, st.B bytes of spare capacity filled with a stale byte
		stale := byte('9')
		if len(st.Opts) > 0 {
			stale = byte(st.Opts[0])
		}
		buf := make([]byte, st.A+st.B)
		for i := range buf {
			if i < st.A {
				buf[i] = byte('a' + i%26)
			} else {
				buf[i] = stale
			}
		}
		prefix := append([]byte{}, buf[:st.A]...)
		out := ryu.AppendFloat64f(buf[:st.A], f)
		x.floatEvent(ev, f, prefix, out)
	case "FloatJSON":
		// the same floats through ToJSON of a float column; one event per float is emitted by the caller
		panic("FloatJSON is expanded by the generator")
	}
}

// jsonFloats renders the floats through ToJSON of a one-column frame and cuts out each number text.
func jsonFloats(fs []float64) [][]byte {
	qf := qframe.New(map[string]types.DataSlice{"F": fs})
	var buf bytes.Buffer
	if err := qf.ToJSON(&buf); err != nil {
		return nil
	}
	b := buf.Bytes()
	res := [][]byte{}
	key := []byte(`{"F":`)
	for {
		i := bytes.Index(b, key)
		if i < 0 {
			break
		}
		b = b[i+len(key):]
		j := bytes.IndexByte(b, '}')
		if j < 0 {
			break
		}
		res = append(res, append([]byte{}, b[:j]...))
		b = b[j:]
	}
	return res
}

func (x *Exec) floatJSONBatch(sc *Scenario, st *Step) {
	part := []float64{}
	for _, d := range st.Data {
		part = append(part, parseFloat(d.Floats[0]))
	}
	texts := jsonFloats(part)
	for k, f := range part {
		ev := Ev{"scn": x.scn, "prop": sc.Prop, "i": k + 1, "op": "FloatJSON", "recv": -1, "out": -1, "pan": 0}
		var out []byte
		if k < len(texts) {
			out = texts[k]
		}
		x.floatEvent(ev, f, nil, out)
		x.emit(ev)
	}
}
