package main

import "math"

func init() {
	generators["C04"] = genC04
	generators["C05"] = genC05
}

var aggByType = map[string][]FnRef{
	"int":    {{K: "builtin", Sym: "sum"}, {K: "builtin", Sym: "min"}, {K: "builtin", Sym: "max"}, {K: "builtin", Sym: "count"}, {K: "agg", Sym: "firstAggI"}, {K: "agg", Sym: "lastAggI"}, {K: "agg", Sym: "altAggI"}, {K: "agg", Sym: "lenAggI"}, {K: "agg", Sym: "spanAggI"}},
	"float":  {{K: "builtin", Sym: "count"}, {K: "agg", Sym: "firstAggF"}, {K: "agg", Sym: "lastAggF"}, {K: "builtin", Sym: "max"}, {K: "builtin", Sym: "min"}, {K: "builtin", Sym: "sum"}, {K: "builtin", Sym: "avg"}, {K: "agg", Sym: "digAggF"}},
	"bool":   {{K: "builtin", Sym: "majority"}, {K: "builtin", Sym: "count"}, {K: "agg", Sym: "firstAggB"}, {K: "agg", Sym: "lastAggB"}, {K: "agg", Sym: "noneAggB"}},
	"string": {{K: "agg", Sym: "joinAggS"}, {K: "agg", Sym: "firstAggS"}, {K: "builtin", Sym: "count"}},
	"enum":   {{K: "agg", Sym: "joinAggS"}, {K: "agg", Sym: "firstAggS"}, {K: "builtin", Sym: "count"}},
}

// keyFrame builds a frame whose key columns have a chosen cardinality (crossing the growth steps of
// the hash table: 8 -> 16 -> ... entries at load factor 0.5) plus value columns.
func (g *Gen) keyFrame(n, card int, cols string) Step {
	st := g.stdNew(n, cols, 18)
	for i := range st.Data {
		d := &st.Data[i]
		switch d.Kind {
		case "int":
			for j := range d.Ints {
				d.Ints[j] = int64(g.rng.Intn(card)) - int64(card/2)
			}
		case "float":
			for j := range d.Floats {
				k := g.rng.Intn(card + 3)
				switch {
				case k == card:
					d.Floats[j] = "NaN"
				case k == card+1:
					d.Floats[j] = "bits:0x7ff8000000000001" // another NaN payload
				case k == card+2:
					d.Floats[j] = "-0"
				case k%7 == 3 && card > 2:
					d.Floats[j] = []string{"+Inf", "-Inf"}[k%2] // equal infinities are one key
				default:
					d.Floats[j] = fmtFloat(float64(k) * 0.5)
				}
			}
		case "string":
			if len(st.Enums) > 0 && isEnumName(st.Enums, d.Name) {
				continue
			}
			for j := range d.Strs {
				k := g.rng.Intn(card + 1)
				if k == card {
					d.Strs[j] = nil
				} else if k == 0 {
					d.Strs[j] = bsp("")
				} else {
					d.Strs[j] = bsp("k" + itoa(k%97) + string(rune('a'+k%3)))
				}
			}
		}
	}
	return st
}

func isEnumName(ee []EnumDecl, n BS) bool {
	for _, e := range ee {
		if e.Name.String() == n.String() {
			return true
		}
	}
	return false
}

func (g *Gen) randomAggs(s schema, keys []string) []Agg {
	aggs := []Agg{}
	for k := g.rng.Intn(4); k > 0; k-- {
		c := g.oneOf(s.names)
		fns := aggByType[s.typeOf(c)]
		if len(fns) == 0 {
			continue
		}
		a := Agg{Fn: fns[g.rng.Intn(len(fns))], Col: toBS(c)}
		switch g.rng.Intn(12) {
		case 0:
			a.Col = toBS("nosuch")
		case 1:
			a.Fn = FnRef{K: "builtin", Sym: "nosuchagg"}
		case 2:
			a.Fn = FnRef{K: "agg", Sym: "firstAggI"} // possibly wrong type
		case 3, 4, 5:
			a.As = toBS(g.oneOf([]string{"Z1", "Z2", c, g.oneOf(s.names)}))
		}
		aggs = append(aggs, a)
	}
	return aggs
}

func genC04(g *Gen) {
	g.arrangedFrames("group arranged", func(f int) {
		for _, k := range [][]string{{"B"}, {"E"}, {"X"}, {"B", "X"}, {}} {
			g.do(Step{Op: "GroupBy", Recv: f, Cols: bsList(k), Null: true})
			gid := len(g.x.groupers) - 1
			g.do(Step{Op: "Aggregate", Recv: gid, Aggs: []Agg{{Fn: FnRef{K: "builtin", Sym: "sum"}, Col: toBS("I")}, {Fn: FnRef{K: "agg", Sym: "altAggI"}, Col: toBS("P")},
				{Fn: FnRef{K: "agg", Sym: "lenAggI"}, Col: toBS("I"), As: toBS("len")}, {Fn: FnRef{K: "agg", Sym: "digAggF"}, Col: toBS("F"), As: toBS("dig")}, {Fn: FnRef{K: "agg", Sym: "noneAggB"}, Col: toBS("B"), As: toBS("none")},
				{Fn: FnRef{K: "agg", Sym: "firstAggF"}, Col: toBS("F")}, {Fn: FnRef{K: "agg", Sym: "lastAggB"}, Col: toBS("B")}}})
			g.do(Step{Op: "QFrames", Recv: gid})
		}
	})
	g.aggExtremes()
	g.sortedRuns("GroupBy", toBS("rid"))
	g.d21Witness("GroupBy")
	g.runsWithHoles("GroupBy", toBS("rid"))
	g.keyProducts("GroupBy", toBS("rid"))
	g.largeKeyed("GroupBy", toBS("rid"))
	g.groupArrangements(4)
	if g.thorough() {
		g.groupArrangements(5)
	}
	rid := toBS("rid")
	sizes := []int{0, 1, 2, 3, 5, 9, 17, 33, 70, 140}
	cards := []int{1, 2, 3, 5, 9, 20, 40, 100}
	if g.thorough() {
		sizes = append(sizes, 300, 700, 1500, 4000)
		cards = append(cards, 300, 1000, 3000)
	}
	colsets := []string{"AF", "ABT", "FS", "SE", "FGB", "TX", "AFTSE", "EDA", "GRB"}
	for rep := 0; rep < g.pick(150, 1200); rep++ {
		n := sizes[g.rng.Intn(len(sizes))]
		card := cards[g.rng.Intn(len(cards))]
		g.begin("groupby")
		f := g.do(g.keyFrame(n, card, colsets[g.rng.Intn(len(colsets))]))
		if n <= 140 && g.rng.Intn(3) == 0 {
			f = g.derive(f)
		}
		s := schemaOf(g.frame(f))
		if s.err || len(s.names) == 0 {
			g.end()
			continue
		}
		if n <= 300 && g.rng.Intn(2) == 0 {
			f = g.do(Step{Op: "Sort", Recv: f, Orders: g.sortOrders(s, 2)})
		}
		f = g.do(Step{Op: "WithRowNums", Recv: f, Dst: rid})
		for k := 0; k < 2; k++ {
			keys := []string{}
			switch g.rng.Intn(8) {
			case 0: // no columns: one group
			case 1:
				keys = []string{"nosuch"}
			default:
				keys = g.subset(s.names, 3)
			}
			g.do(Step{Op: "GroupBy", Recv: f, Cols: bsList(keys), Null: g.rng.Intn(2) == 0, Rid: rid})
			gid := len(g.x.groupers) - 1
			g.do(Step{Op: "Aggregate", Recv: gid, Aggs: g.randomAggs(s, keys)})
			if n <= 140 && g.rng.Intn(2) == 0 {
				g.do(Step{Op: "QFrames", Recv: gid})
			}
			g.do(Step{Op: "Aggregate", Recv: gid, Aggs: g.randomAggs(s, keys)})
		}
		g.end()
	}
}

// every arrangement of the rows at small scale: n rows, key K over {0,1}, frame sorted by V where V
// runs over all permutations (so the physical positions of every group come in every order), then
// order-sensitive and built-in aggregations of W
func (g *Gen) groupArrangements(n int) {
	rid := toBS("rid")
	perm := make([]int, n)
	for i := range perm {
		perm[i] = i
	}
	var rec func(k int)
	emit := func() {
		for keys := 0; keys < 1<<uint(n); keys++ {
			kv, vv, wv := make([]int64, n), make([]int64, n), make([]int64, n)
			for i := 0; i < n; i++ {
				kv[i] = int64(keys >> uint(i) & 1)
				vv[i] = int64(perm[i])
				wv[i] = int64([]int{1, 10, 100, 1000, 10000, 100000}[i])
			}
			g.begin("group arrangements")
			f := g.do(Step{Op: "New", Recv: -1, HasOrder: true, ColOrder: bsList([]string{"K", "V", "W", "T"}), Data: []ColData{
				{Name: toBS("K"), Kind: "int", Ints: kv}, {Name: toBS("V"), Kind: "int", Ints: vv}, {Name: toBS("W"), Kind: "int", Ints: wv},
				{Name: toBS("T"), Kind: "bool", Bools: g.boolVals(n)}}})
			f = g.do(Step{Op: "Sort", Recv: f, Orders: []Order{{Col: toBS("V")}}})
			f = g.do(Step{Op: "WithRowNums", Recv: f, Dst: rid})
			g.do(Step{Op: "GroupBy", Recv: f, Cols: bsList([]string{"K"}), Rid: rid})
			gid := len(g.x.groupers) - 1
			g.do(Step{Op: "Aggregate", Recv: gid, Aggs: []Agg{{Fn: FnRef{K: "builtin", Sym: "sum"}, Col: toBS("W")}, {Fn: FnRef{K: "agg", Sym: "altAggI"}, Col: toBS("W"), As: toBS("alt")},
				{Fn: FnRef{K: "builtin", Sym: "majority"}, Col: toBS("T")}, {Fn: FnRef{K: "agg", Sym: "firstAggI"}, Col: toBS("V"), As: toBS("first")}}})
			g.end()
		}
	}
	rec = func(k int) {
		if k == n {
			emit()
			return
		}
		for i := k; i < n; i++ {
			perm[k], perm[i] = perm[i], perm[k]
			rec(k + 1)
			perm[k], perm[i] = perm[i], perm[k]
		}
	}
	rec(0)
}

func genC05(g *Gen) {
	rid := toBS("rid")
	g.arrangedFrames("distinct arranged", func(f int) {
		for _, k := range [][]string{{"B"}, {"E"}, {"X"}, {"B", "E"}, {"I"}, {}} {
			g.do(Step{Op: "Distinct", Recv: f, Cols: bsList(k), Null: g.rng.Intn(2) == 0})
		}
	})
	g.sortedRuns("Distinct", rid)
	g.d21Witness("Distinct")
	g.runsWithHoles("Distinct", rid)
	g.keyProducts("Distinct", rid)
	g.largeKeyed("Distinct", rid)
	sizes := []int{0, 1, 2, 3, 5, 9, 17, 33, 70, 140}
	cards := []int{1, 2, 3, 5, 9, 20, 40, 100}
	if g.thorough() {
		sizes = append(sizes, 300, 700, 1500, 4000)
		cards = append(cards, 300, 1000, 3000)
	}
	colsets := []string{"AF", "ABT", "FS", "SE", "FGB", "TX", "AFTSE", "EDA", "GRB", "F", "S", "X"}
	for rep := 0; rep < g.pick(70, 1200); rep++ {
		n := sizes[g.rng.Intn(len(sizes))]
		card := cards[g.rng.Intn(len(cards))]
		g.begin("distinct")
		f := g.do(g.keyFrame(n, card, colsets[g.rng.Intn(len(colsets))]))
		if n <= 140 && g.rng.Intn(3) == 0 {
			f = g.derive(f)
		}
		s := schemaOf(g.frame(f))
		if s.err || len(s.names) == 0 {
			g.end()
			continue
		}
		// all-columns distinct on the frame without row numbers, then keyed distinct with them
		if s.n <= 140 {
			g.do(Step{Op: "Distinct", Recv: f, Null: g.rng.Intn(2) == 0})
		}
		f = g.do(Step{Op: "WithRowNums", Recv: f, Dst: rid})
		for k := 0; k < 3; k++ {
			keys := g.subset(s.names, 3)
			if g.rng.Intn(25) == 0 {
				keys = []string{"nosuch"}
			}
			g.do(Step{Op: "Distinct", Recv: f, Cols: bsList(keys), Null: g.rng.Intn(2) == 0, Rid: rid})
		}
		g.end()
	}
}

// keyProducts: for every ordered pair (and a sample of triples) of key column types - int, float, bool,
// string, declared enum, derived enum - a frame holding the full product of {null, v0, v1} per key (bool:
// {false, true}; int: no null) with some rows repeated, in random order; grouped / deduplicated on the
// pair with both Null settings. Combined keys of every type mix are thereby enumerated, not sampled.
func (g *Gen) keyProducts(op string, rid BS) {
	kinds := []string{"int", "float", "bool", "string", "enumD", "enumX"}
	valsOf := func(k string) []int { // -1 = null
		switch k {
		case "int":
			return []int{0, 1, 2}
		case "bool":
			return []int{0, 1}
		}
		return []int{-1, 0, 1}
	}
	mkCol := func(name, kind string, codes []int, st *Step) {
		n := len(codes)
		switch kind {
		case "int":
			v := make([]int64, n)
			for i, c := range codes {
				v[i] = int64(c)
			}
			st.Data = append(st.Data, ColData{Name: toBS(name), Kind: "int", Ints: v})
		case "float":
			v := make([]string, n)
			for i, c := range codes {
				v[i] = []string{"NaN", "+Inf", "1.5"}[c+1]
			}
			st.Data = append(st.Data, ColData{Name: toBS(name), Kind: "float", Floats: v})
		case "bool":
			v := make([]bool, n)
			for i, c := range codes {
				v[i] = c == 1
			}
			st.Data = append(st.Data, ColData{Name: toBS(name), Kind: "bool", Bools: v})
		default:
			v := make([]*BS, n)
			for i, c := range codes {
				if c >= 0 {
					v[i] = bsp([]string{"p", "q"}[c])
				}
			}
			st.Data = append(st.Data, ColData{Name: toBS(name), Kind: "string", Strs: v})
			if kind == "enumD" {
				st.HasEnums = true
				st.Enums = append(st.Enums, EnumDecl{Name: toBS(name), Vals: bsList([]string{"q", "p"})})
			} else if kind == "enumX" {
				st.HasEnums = true
				st.Enums = append(st.Enums, EnumDecl{Name: toBS(name), Vals: nil})
			}
		}
		st.ColOrder = append(st.ColOrder, toBS(name))
	}
	run := func(ks []string) {
		// the product of the value sets, each combination once or twice, shuffled
		combos := [][]int{{}}
		for _, k := range ks {
			next := [][]int{}
			for _, c := range combos {
				for _, v := range valsOf(k) {
					next = append(next, append(append([]int{}, c...), v))
				}
			}
			combos = next
		}
		rows := [][]int{}
		for _, c := range combos {
			rows = append(rows, c)
			if g.rng.Intn(3) == 0 {
				rows = append(rows, c)
			}
		}
		g.rng.Shuffle(len(rows), func(i, j int) { rows[i], rows[j] = rows[j], rows[i] })
		st := Step{Op: "New", Recv: -1, HasOrder: true}
		names := []string{}
		for ci, k := range ks {
			codes := make([]int, len(rows))
			for r := range rows {
				codes[r] = rows[r][ci]
			}
			name := "K" + itoa(ci)
			names = append(names, name)
			mkCol(name, k, codes, &st)
		}
		g.begin("key product")
		f := g.do(st)
		f = g.do(Step{Op: "WithRowNums", Recv: f, Dst: rid})
		for _, null := range []bool{false, true} {
			if op == "GroupBy" {
				g.do(Step{Op: "GroupBy", Recv: f, Cols: bsList(names), Null: null, Rid: rid})
				g.do(Step{Op: "Aggregate", Recv: len(g.x.groupers) - 1, Aggs: []Agg{{Fn: FnRef{K: "builtin", Sym: "count"}, Col: rid}}})
			} else {
				g.do(Step{Op: "Distinct", Recv: f, Cols: bsList(names), Null: null, Rid: rid})
			}
		}
		g.end()
	}
	for _, a := range kinds {
		for _, b := range kinds {
			run([]string{a, b})
		}
	}
	for k := 0; k < g.pick(20, 216); k++ {
		run([]string{kinds[g.rng.Intn(6)], kinds[g.rng.Intn(6)], kinds[g.rng.Intn(6)]})
	}
	for _, a := range kinds {
		run([]string{a})
	}
}

// largeKeyed: row counts around the sizes at which an implementation may change strategy (powers of
// two), with keys that are all distinct, or few and repeating with one new key in the very last rows
func (g *Gen) largeKeyed(op string, rid BS) {
	sizes := []int{4097, 4099}
	if g.thorough() {
		sizes = []int{1023, 1025, 2049, 4095, 4096, 4097, 4098, 4099, 8193, 16387}
	}
	if g.thorough() {
		// alternating calls on frames large enough for a table of 4096 slots and more to be grown and - should
		// the implementation recycle tables - to be handed from one call to the next
		for round := 0; round < 4; round++ {
			sizes = append(sizes, 9001+round, 12001+round)
		}
	}
	for _, n := range sizes {
		for variant := 0; variant < 2; variant++ {
			if n > 9000 && n < 9010 && variant == 1 || n > 12000 && n < 12010 && variant == 0 {
				continue // 9001.. all distinct, 12001.. ten keys, in turn
			}
			k := make([]int64, n)
			for i := range k {
				if variant == 0 {
					k[i] = int64((i * 7919) % 100003) // all distinct
				} else {
					k[i] = int64(i % 10)
				}
			}
			if variant == 1 {
				k[n-1] = 77 // a key no earlier row carries
			}
			g.begin("large keyed")
			f := g.do(Step{Op: "New", Recv: -1, Data: []ColData{{Name: toBS("K"), Kind: "int", Ints: k}}})
			f = g.do(Step{Op: "WithRowNums", Recv: f, Dst: rid})
			if op == "GroupBy" {
				g.do(Step{Op: "GroupBy", Recv: f, Cols: bsList([]string{"K"}), Rid: rid})
			} else {
				g.do(Step{Op: "Distinct", Recv: f, Cols: bsList([]string{"K"}), Rid: rid})
			}
			g.end()
		}
	}
}

// runsWithHoles: keys stored in runs of equal values (1 1 1 2 2 2 ...), of which a Filter or a Slice then
// keeps only some rows - so that a kept row's stored predecessor carries the same key but is not part of
// the frame - optionally re-sorted; then grouped / deduplicated
func (g *Gen) runsWithHoles(op string, rid BS) {
	for rep := 0; rep < g.pick(40, 400); rep++ {
		n := 4 + g.rng.Intn(28)
		run := 1 + g.rng.Intn(4)
		k, keep := make([]int64, n), make([]int64, n)
		sv := make([]*BS, n)
		for i := range k {
			k[i] = int64(i / run)
			keep[i] = int64(g.rng.Intn(2))
			sv[i] = bsp("k" + itoa(i/run))
		}
		g.begin("runs with holes")
		f := g.do(Step{Op: "New", Recv: -1, HasOrder: true, ColOrder: bsList([]string{"K", "S", "KEEP"}), Data: []ColData{{Name: toBS("K"), Kind: "int", Ints: k},
			{Name: toBS("S"), Kind: "string", Strs: sv}, {Name: toBS("KEEP"), Kind: "int", Ints: keep}}})
		f = g.do(Step{Op: "WithRowNums", Recv: f, Dst: rid})
		switch g.rng.Intn(3) {
		case 0:
			cl := Clause{K: "leaf", Col: toBS("KEEP"), CmpK: "str", Cmp: "=", Arg: &Val{T: "int", I: 1}}
			f = g.do(Step{Op: "Filter", Recv: f, Clause: &cl})
		case 1:
			a := 1 + g.rng.Intn(n-2)
			f = g.do(Step{Op: "Slice", Recv: f, A: a, B: a + 1 + g.rng.Intn(n-a-1)})
		default:
			f = g.do(Step{Op: "Distinct", Recv: f, Cols: bsList([]string{"K", "KEEP"}), Rid: rid})
		}
		if g.rng.Intn(3) == 0 {
			f = g.do(Step{Op: "Sort", Recv: f, Orders: []Order{{Col: toBS("KEEP")}, {Col: rid, Rev: true}}, Rid: rid})
		}
		for _, key := range []string{"K", "S"} {
			if op == "GroupBy" {
				g.do(Step{Op: "GroupBy", Recv: f, Cols: bsList([]string{key}), Rid: rid})
			} else {
				g.do(Step{Op: "Distinct", Recv: f, Cols: bsList([]string{key}), Rid: rid})
			}
		}
		g.end()
	}
}

// d21Witness: the recorded finding D21 (KNOWN_FINDINGS.jsonl): the built-in ToUpper on an enum column with
// case variants leaves two codes for one string, and grouping goes by the code. Fixed inputs, no randomness.
func (g *Gen) d21Witness(op string) {
	for _, tc := range []struct{ decl, cells []string }{
		{[]string{"a", "A", "b"}, []string{"a", "A", "b", "A", "a"}},
		{nil, []string{"x", "X", "x"}},
	} {
		g.begin("D21 witness: enum ToUpper then " + op)
		strs := make([]*BS, len(tc.cells))
		for i, c := range tc.cells {
			strs[i] = bsp(c)
		}
		var decl []BS
		if tc.decl != nil {
			decl = bsList(tc.decl)
		}
		f := g.do(Step{Op: "New", Recv: -1, HasOrder: true, ColOrder: bsList([]string{"E"}), HasEnums: true, Enums: []EnumDecl{{Name: toBS("E"), Vals: decl}},
			Data: []ColData{{Name: toBS("E"), Kind: "string", Strs: strs}}})
		u := g.do(Step{Op: "Apply", Recv: f, Instrs: []Instr{{Fn: FnRef{K: "builtin", Sym: "ToUpper"}, Dst: toBS("E"), Src1: toBS("E")}}})
		g.do(Step{Op: op, Recv: u, Cols: bsList([]string{"E"}), Opts: []int{77}})
		g.end()
	}
}

// aggExtremes: built-in aggregations over groups holding the ends of the int and float ranges
func (g *Gen) aggExtremes() {
	ints := []int64{math.MaxInt64, -1, math.MinInt64, 0, 1 << 62, -(1 << 62), 5, math.MaxInt64 - 1, math.MinInt64 + 1}
	floats := []string{"1.7976931348623157e308", "-1", "-1.7976931348623157e308", "0", "1e300", "-1e300", "5", "4.9e-324", "-4.9e-324"}
	for rep := 0; rep < g.pick(12, 120); rep++ {
		n := 2 + g.rng.Intn(7)
		k, a := make([]int64, n), make([]int64, n)
		f := make([]string, n)
		for i := range k {
			k[i], a[i], f[i] = int64(g.rng.Intn(2)), ints[g.rng.Intn(len(ints))], floats[g.rng.Intn(len(floats))]
		}
		g.begin("aggregation extremes")
		fr := g.do(Step{Op: "New", Recv: -1, HasOrder: true, ColOrder: bsList([]string{"K", "A", "F"}),
			Data: []ColData{{Name: toBS("K"), Kind: "int", Ints: k}, {Name: toBS("A"), Kind: "int", Ints: a}, {Name: toBS("F"), Kind: "float", Floats: f}}})
		for _, keys := range [][]string{{"K"}, {}} {
			g.do(Step{Op: "GroupBy", Recv: fr, Cols: bsList(keys)})
			gid := len(g.x.groupers) - 1
			g.do(Step{Op: "Aggregate", Recv: gid, Aggs: []Agg{{Fn: FnRef{K: "builtin", Sym: "max"}, Col: toBS("A")}, {Fn: FnRef{K: "builtin", Sym: "min"}, Col: toBS("A"), As: toBS("mn")},
				{Fn: FnRef{K: "builtin", Sym: "max"}, Col: toBS("F"), As: toBS("fmax")}, {Fn: FnRef{K: "builtin", Sym: "min"}, Col: toBS("F"), As: toBS("fmin")}, {Fn: FnRef{K: "builtin", Sym: "count"}, Col: toBS("A"), As: toBS("n")}}})
		}
		g.end()
	}
}

// sortedRuns: frames sorted on (key, value) - so that equal keys form runs in frame order while the stored
// order is arbitrary - with enough distinct keys for the hash table to grow once or twice, then grouped
func (g *Gen) sortedRuns(op string, rid BS) {
	for rep := 0; rep < g.pick(150, 1500); rep++ {
		n := 8 + g.rng.Intn(40)
		card := 5 + g.rng.Intn(16)
		k, v := make([]int64, n), make([]int64, n)
		sv := make([]*BS, n)
		for i := range k {
			k[i], v[i] = int64(g.rng.Intn(card)), int64(g.rng.Intn(50))
			sv[i] = bsp("k" + itoa(int(k[i])))
		}
		g.begin("sorted runs")
		f := g.do(Step{Op: "New", Recv: -1, HasOrder: true, ColOrder: bsList([]string{"K", "S", "V"}), Data: []ColData{{Name: toBS("K"), Kind: "int", Ints: k},
			{Name: toBS("S"), Kind: "string", Strs: sv}, {Name: toBS("V"), Kind: "int", Ints: v}}})
		f = g.do(Step{Op: "WithRowNums", Recv: f, Dst: rid})
		key := g.oneOf([]string{"K", "S"})
		f = g.do(Step{Op: "Sort", Recv: f, Orders: []Order{{Col: toBS(key), Rev: g.rng.Intn(3) == 0}, {Col: toBS("V")}}, Rid: rid})
		if op == "GroupBy" {
			g.do(Step{Op: "GroupBy", Recv: f, Cols: bsList([]string{key}), Rid: rid})
			g.do(Step{Op: "Aggregate", Recv: len(g.x.groupers) - 1, Aggs: []Agg{{Fn: FnRef{K: "builtin", Sym: "count"}, Col: toBS("V")}, {Fn: FnRef{K: "builtin", Sym: "sum"}, Col: toBS("V"), As: toBS("sum")}}})
		} else {
			g.do(Step{Op: "Distinct", Recv: f, Cols: bsList([]string{key}), Rid: rid})
		}
		g.end()
	}
}
