package main

func init() {
	generators["C04"] = genC04
	generators["C05"] = genC05
}

var aggByType = map[string][]FnRef{
	"int":    {{K: "builtin", Sym: "sum"}, {K: "builtin", Sym: "min"}, {K: "builtin", Sym: "max"}, {K: "builtin", Sym: "count"}, {K: "agg", Sym: "firstAggI"}, {K: "agg", Sym: "lastAggI"}, {K: "agg", Sym: "altAggI"}},
	"float":  {{K: "builtin", Sym: "count"}, {K: "agg", Sym: "firstAggF"}, {K: "agg", Sym: "lastAggF"}, {K: "builtin", Sym: "max"}, {K: "builtin", Sym: "min"}, {K: "builtin", Sym: "sum"}, {K: "builtin", Sym: "avg"}},
	"bool":   {{K: "builtin", Sym: "majority"}, {K: "builtin", Sym: "count"}, {K: "agg", Sym: "firstAggB"}, {K: "agg", Sym: "lastAggB"}},
	"string": {{K: "agg", Sym: "joinAggS"}, {K: "agg", Sym: "firstAggS"}, {K: "builtin", Sym: "count"}},
	"enum":   {{K: "agg", Sym: "joinAggS"}, {K: "agg", Sym: "firstAggS"}, {K: "builtin", Sym: "count"}},
}

// keyFrame builds a frame whose key columns have a chosen cardinality (crossing the growth steps of
// the hash table: 8 -> 16 -> ... entries at load factor 0.5) plus value columns.
func (g *Gen) keyFrame(n, card int, cols string) Step {
	st := g.stdNew(n, cols, 18)
	for i := range st.Data {
		d := &st.Data[i]
		switch d.Kind {
		case "int":
			for j := range d.Ints {
				d.Ints[j] = int64(g.rng.Intn(card)) - int64(card/2)
			}
		case "float":
			for j := range d.Floats {
				k := g.rng.Intn(card + 3)
				switch {
				case k == card:
					d.Floats[j] = "NaN"
				case k == card+1:
					d.Floats[j] = "bits:0x7ff8000000000001" // another NaN payload
				case k == card+2:
					d.Floats[j] = "-0"
				default:
					d.Floats[j] = fmtFloat(float64(k) * 0.5)
				}
			}
		case "string":
			if len(st.Enums) > 0 && isEnumName(st.Enums, d.Name) {
				continue
			}
			for j := range d.Strs {
				k := g.rng.Intn(card + 1)
				if k == card {
					d.Strs[j] = nil
				} else if k == 0 {
					d.Strs[j] = bsp("")
				} else {
					d.Strs[j] = bsp("k" + itoa(k%97) + string(rune('a'+k%3)))
				}
			}
		}
	}
	return st
}

func isEnumName(ee []EnumDecl, n BS) bool {
	for _, e := range ee {
		if e.Name.String() == n.String() {
			return true
		}
	}
	return false
}

func (g *Gen) randomAggs(s schema, keys []string) []Agg {
	aggs := []Agg{}
	for k := g.rng.Intn(4); k > 0; k-- {
		c := g.oneOf(s.names)
		fns := aggByType[s.typeOf(c)]
		if len(fns) == 0 {
			continue
		}
		a := Agg{Fn: fns[g.rng.Intn(len(fns))], Col: toBS(c)}
		switch g.rng.Intn(12) {
		case 0:
			a.Col = toBS("nosuch")
		case 1:
			a.Fn = FnRef{K: "builtin", Sym: "nosuchagg"}
		case 2:
			a.Fn = FnRef{K: "agg", Sym: "firstAggI"} // possibly wrong type
		case 3, 4, 5:
			a.As = toBS(g.oneOf([]string{"Z1", "Z2", c, g.oneOf(s.names)}))
		}
		aggs = append(aggs, a)
	}
	return aggs
}

func genC04(g *Gen) {
	g.groupArrangements(4)
	if g.thorough() {
		g.groupArrangements(5)
	}
	rid := toBS("rid")
	sizes := []int{0, 1, 2, 3, 5, 9, 17, 33, 70, 140}
	cards := []int{1, 2, 3, 5, 9, 20, 40, 100}
	if g.thorough() {
		sizes = append(sizes, 300, 700, 1500, 4000)
		cards = append(cards, 300, 1000, 3000)
	}
	colsets := []string{"AF", "ABT", "FS", "SE", "FGB", "TX", "AFTSE", "EDA", "GRB"}
	for rep := 0; rep < g.pick(150, 1200); rep++ {
		n := sizes[g.rng.Intn(len(sizes))]
		card := cards[g.rng.Intn(len(cards))]
		g.begin("groupby")
		f := g.do(g.keyFrame(n, card, colsets[g.rng.Intn(len(colsets))]))
		if n <= 140 && g.rng.Intn(3) == 0 {
			f = g.derive(f)
		}
		s := schemaOf(g.frame(f))
		if s.err || len(s.names) == 0 {
			g.end()
			continue
		}
		if n <= 300 && g.rng.Intn(2) == 0 {
			f = g.do(Step{Op: "Sort", Recv: f, Orders: g.sortOrders(s, 2)})
		}
		f = g.do(Step{Op: "WithRowNums", Recv: f, Dst: rid})
		for k := 0; k < 2; k++ {
			keys := []string{}
			switch g.rng.Intn(8) {
			case 0: // no columns: one group
			case 1:
				keys = []string{"nosuch"}
			default:
				keys = g.subset(s.names, 3)
			}
			g.do(Step{Op: "GroupBy", Recv: f, Cols: bsList(keys), Null: g.rng.Intn(2) == 0, Rid: rid})
			gid := len(g.x.groupers) - 1
			g.do(Step{Op: "Aggregate", Recv: gid, Aggs: g.randomAggs(s, keys)})
			if n <= 140 && g.rng.Intn(2) == 0 {
				g.do(Step{Op: "QFrames", Recv: gid})
			}
			g.do(Step{Op: "Aggregate", Recv: gid, Aggs: g.randomAggs(s, keys)})
		}
		g.end()
	}
}

// every arrangement of the rows at small scale: n rows, key K over {0,1}, frame sorted by V where V
// runs over all permutations (so the physical positions of every group come in every order), then
// order-sensitive and built-in aggregations of W
func (g *Gen) groupArrangements(n int) {
	rid := toBS("rid")
	perm := make([]int, n)
	for i := range perm {
		perm[i] = i
	}
	var rec func(k int)
	emit := func() {
		for keys := 0; keys < 1<<uint(n); keys++ {
			kv, vv, wv := make([]int64, n), make([]int64, n), make([]int64, n)
			for i := 0; i < n; i++ {
				kv[i] = int64(keys >> uint(i) & 1)
				vv[i] = int64(perm[i])
				wv[i] = int64([]int{1, 10, 100, 1000, 10000, 100000}[i])
			}
			g.begin("group arrangements")
			f := g.do(Step{Op: "New", Recv: -1, HasOrder: true, ColOrder: bsList([]string{"K", "V", "W", "T"}), Data: []ColData{
				{Name: toBS("K"), Kind: "int", Ints: kv}, {Name: toBS("V"), Kind: "int", Ints: vv}, {Name: toBS("W"), Kind: "int", Ints: wv},
				{Name: toBS("T"), Kind: "bool", Bools: g.boolVals(n)}}})
			f = g.do(Step{Op: "Sort", Recv: f, Orders: []Order{{Col: toBS("V")}}})
			f = g.do(Step{Op: "WithRowNums", Recv: f, Dst: rid})
			g.do(Step{Op: "GroupBy", Recv: f, Cols: bsList([]string{"K"}), Rid: rid})
			gid := len(g.x.groupers) - 1
			g.do(Step{Op: "Aggregate", Recv: gid, Aggs: []Agg{{Fn: FnRef{K: "builtin", Sym: "sum"}, Col: toBS("W")}, {Fn: FnRef{K: "agg", Sym: "altAggI"}, Col: toBS("W"), As: toBS("alt")},
				{Fn: FnRef{K: "builtin", Sym: "majority"}, Col: toBS("T")}, {Fn: FnRef{K: "agg", Sym: "firstAggI"}, Col: toBS("V"), As: toBS("first")}}})
			g.end()
		}
	}
	rec = func(k int) {
		if k == n {
			emit()
			return
		}
		for i := k; i < n; i++ {
			perm[k], perm[i] = perm[i], perm[k]
			rec(k + 1)
			perm[k], perm[i] = perm[i], perm[k]
		}
	}
	rec(0)
}

func genC05(g *Gen) {
	rid := toBS("rid")
	sizes := []int{0, 1, 2, 3, 5, 9, 17, 33, 70, 140}
	cards := []int{1, 2, 3, 5, 9, 20, 40, 100}
	if g.thorough() {
		sizes = append(sizes, 300, 700, 1500, 4000)
		cards = append(cards, 300, 1000, 3000)
	}
	colsets := []string{"AF", "ABT", "FS", "SE", "FGB", "TX", "AFTSE", "EDA", "GRB", "F", "S", "X"}
	for rep := 0; rep < g.pick(70, 1200); rep++ {
		n := sizes[g.rng.Intn(len(sizes))]
		card := cards[g.rng.Intn(len(cards))]
		g.begin("distinct")
		f := g.do(g.keyFrame(n, card, colsets[g.rng.Intn(len(colsets))]))
		if n <= 140 && g.rng.Intn(3) == 0 {
			f = g.derive(f)
		}
		s := schemaOf(g.frame(f))
		if s.err || len(s.names) == 0 {
			g.end()
			continue
		}
		// all-columns distinct on the frame without row numbers, then keyed distinct with them
		if s.n <= 140 {
			g.do(Step{Op: "Distinct", Recv: f, Null: g.rng.Intn(2) == 0})
		}
		f = g.do(Step{Op: "WithRowNums", Recv: f, Dst: rid})
		for k := 0; k < 3; k++ {
			keys := g.subset(s.names, 3)
			if g.rng.Intn(25) == 0 {
				keys = []string{"nosuch"}
			}
			g.do(Step{Op: "Distinct", Recv: f, Cols: bsList(keys), Null: g.rng.Intn(2) == 0, Rid: rid})
		}
		g.end()
	}
}
