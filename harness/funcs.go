package main

// Registry of function symbols. The specification treats functions passed to Apply / Eval /
// Aggregate / Filter as uninterpreted symbols with a signature and a finite table args -> result;
// the executor fills the tables by calling the registered Go function (for built-ins: the exported
// reference function from package function / the standard library) on the argument tuples that
// occur under the documented semantics. A missing table entry is a harness error (exit 2), never a
// verdict.

import (
	"math"
	"reflect"
	"strings"
	"sync/atomic"

	"github.com/tobgu/qframe/function"
)

type GV = interface{} // int | float64 | bool | *string

type FnEntry struct {
	Arity int    // 0,1,2 ; -1 = aggregation (slice -> value)
	ArgT  string // int float bool string
	ResT  string
	Fn    interface{} // handed to the library: wrapped with a call counter at start-up
}

// rawFn: the functions themselves, used by the harness to fill tables (calls not counted)
var rawFn = map[string]interface{}{}

func sp(s string) *string { return &s }

var fnReg = map[string]FnEntry{
	// int
	"negI":      {1, "int", "int", func(x int) int { return -x }},
	"AbsI":      {1, "int", "int", function.AbsI},
	"incI":      {1, "int", "int", func(x int) int { return x + 1 }},
	"FloatI":    {1, "int", "float", function.FloatI},
	"halfI":     {1, "int", "float", func(x int) float64 { return float64(x) / 2 }},
	"BoolI":     {1, "int", "bool", function.BoolI},
	"oddI":      {1, "int", "bool", func(x int) bool { return x%2 != 0 }},
	"StrI":      {1, "int", "string", function.StrI},
	"nilIfNegI": {1, "int", "string", func(x int) *string { if x < 0 { return nil }; return sp("p") }},
	"PlusI":     {2, "int", "int", function.PlusI},
	"MinusI":    {2, "int", "int", function.MinusI},
	"MulI":      {2, "int", "int", function.MulI},
	"fstI":      {2, "int", "int", func(x, y int) int { return x }},
	"sndI":      {2, "int", "int", func(x, y int) int { return y }},
	"sevenI":    {0, "", "int", func() int { return 7 }},
	// float
	"absF":     {1, "float", "float", math.Abs},
	"negF":     {1, "float", "float", func(x float64) float64 { return -x }},
	"nanIfNegF": {1, "float", "float", func(x float64) float64 { if x < 0 { return math.NaN() }; return x }},
	"signF":    {1, "float", "int", func(x float64) int { if x < 0 { return -1 }; if x > 0 { return 1 }; return 0 }},
	"isNegF":   {1, "float", "bool", func(x float64) bool { return x < 0 }},
	"StrF":     {1, "float", "string", function.StrF},
	"IntF":     {1, "float", "int", function.IntF},
	"PlusF":    {2, "float", "float", function.PlusF},
	"MinusF":   {2, "float", "float", function.MinusF},
	"MulF":     {2, "float", "float", function.MulF},
	"DivF":     {2, "float", "float", function.DivF},
	"halfF":    {0, "", "float", func() float64 { return 0.5 }},
	// bool
	"NotB":   {1, "bool", "bool", function.NotB},
	"IntB":   {1, "bool", "int", function.IntB},
	"fltB":   {1, "bool", "float", func(x bool) float64 { if x { return 1.5 }; return -0.5 }},
	"StrB":   {1, "bool", "string", function.StrB},
	"AndB":   {2, "bool", "bool", function.AndB},
	"OrB":    {2, "bool", "bool", function.OrB},
	"XorB":   {2, "bool", "bool", function.XorB},
	"NandB":  {2, "bool", "bool", function.NandB},
	"implB":  {2, "bool", "bool", func(x, y bool) bool { return !x || y }},
	"trueB":  {0, "", "bool", func() bool { return true }},
	// string
	"UpperS":      {1, "string", "string", function.UpperS},
	"LowerS":      {1, "string", "string", function.LowerS},
	"StrS":        {1, "string", "string", function.StrS},
	"nilIfEmptyS": {1, "string", "string", func(s *string) *string { if s == nil || *s == "" { return nil }; return s }},
	"bangS":       {1, "string", "string", func(s *string) *string { if s == nil { return sp("!") }; return sp(*s + "!") }},
	"LenS":        {1, "string", "int", function.LenS},
	"lenFS":       {1, "string", "float", func(s *string) float64 { if s == nil { return math.NaN() }; return float64(len(*s)) }},
	"isNilS":      {1, "string", "bool", func(s *string) bool { return s == nil }},
	"ConcatS":     {2, "string", "string", function.ConcatS},
	"fstS":        {2, "string", "string", func(x, y *string) *string { return x }},
	"xS":          {0, "", "string", func() *string { return sp("x") }},
	"nilS":        {0, "", "string", func() *string { return nil }},
	"ToUpper":     {1, "string", "string", func(s *string) *string { if s == nil { return nil }; return sp(strings.ToUpper(*s)) }},
	// two-argument predicates (column - column custom filters)
	"ltII":     {2, "int", "bool", func(x, y int) bool { return x < y }},
	"ltFF":     {2, "float", "bool", func(x, y float64) bool { return x < y }},
	"implBB":   {2, "bool", "bool", func(x, y bool) bool { return !x || y }},
	"prefixSS": {2, "string", "bool", func(x, y *string) bool { return x != nil && y != nil && strings.HasPrefix(*y, *x) }},
	// aggregations: slice -> value
	"lenAggI":   {-1, "int", "int", func(v []int) int { return len(v) }},
	"spanAggI":  {-1, "int", "int", func(v []int) int { lo, hi := v[0], v[0]; for _, x := range v { if x < lo { lo = x }; if x > hi { hi = x } }; return hi - lo }},
	"digAggF":   {-1, "float", "float", func(v []float64) float64 { r := 1.0; for _, x := range v { r = r/2 + x }; return r }},
	"noneAggB":  {-1, "bool", "bool", func(v []bool) bool { for _, x := range v { if x { return false } }; return true }},
	"firstAggI": {-1, "int", "int", func(v []int) int { return v[0] }},
	"lastAggI":  {-1, "int", "int", func(v []int) int { return v[len(v)-1] }},
	"altAggI":   {-1, "int", "int", func(v []int) int { r := 0; for i, x := range v { if i%2 == 0 { r += x } else { r -= x } }; return r }},
	"firstAggF": {-1, "float", "float", func(v []float64) float64 { return v[0] }},
	"lastAggF":  {-1, "float", "float", func(v []float64) float64 { return v[len(v)-1] }},
	"firstAggB": {-1, "bool", "bool", func(v []bool) bool { return v[0] }},
	"lastAggB":  {-1, "bool", "bool", func(v []bool) bool { return v[len(v)-1] }},
	"joinAggS":  {-1, "string", "string", func(v []*string) *string { r := ""; for _, s := range v { if s == nil { r += "~" } else { r += *s + "," } }; return &r }},
	"firstAggS": {-1, "string", "string", func(v []*string) *string { if v[0] == nil { return nil }; c := *v[0]; return &c }},
	// built-in aggregations, reference implementations written here from their documented meaning
	"sum:int":       {-1, "int", "int", func(v []int) int { r := 0; for _, x := range v { r += x }; return r }},
	"min:int":       {-1, "int", "int", func(v []int) int { r := v[0]; for _, x := range v { if x < r { r = x } }; return r }},
	"max:int":       {-1, "int", "int", func(v []int) int { r := v[0]; for _, x := range v { if x > r { r = x } }; return r }},
	"sum:float":     {-1, "float", "float", func(v []float64) float64 { r := 0.0; for _, x := range v { r += x }; return r }},
	"avg:float":     {-1, "float", "float", func(v []float64) float64 { r := 0.0; for _, x := range v { r += x }; return r / float64(len(v)) }},
	"min:float":     {-1, "float", "float", func(v []float64) float64 { r := v[0]; for _, x := range v { if x < r { r = x } }; return r }},
	"max:float":     {-1, "float", "float", func(v []float64) float64 { r := v[0]; for _, x := range v { if x > r { r = x } }; return r }},
	"majority:bool": {-1, "bool", "bool", func(v []bool) bool { t := 0; for _, x := range v { if x { t++ } }; return 2*t > len(v) }},
}

// Every registered function is wrapped so that calls made by the library are counted: C10 demands
// that no user callback runs once Err is set. The wrapper has the exact Go type of the original, so
// the library's type switches see no difference.
var callCount int64

func init() {
	for name, e := range fnReg {
		orig := reflect.ValueOf(e.Fn)
		rawFn[name] = e.Fn
		w := reflect.MakeFunc(orig.Type(), func(args []reflect.Value) []reflect.Value {
			atomic.AddInt64(&callCount, 1)
			return orig.Call(args)
		})
		e.Fn = w.Interface()
		fnReg[name] = e
	}
}

func gvCell(v GV) Cell {
	switch t := v.(type) {
	case int:
		return encInt(t)
	case float64:
		return encFloat(t)
	case bool:
		return encBool(t)
	case *string:
		return encPStr(t)
	case string:
		return encStr(t)
	}
	panic("gvCell: unsupported value")
}

func callFn(sym string, args ...GV) GV {
	_, ok := fnReg[sym]
	if !ok {
		panic("unknown function symbol " + sym)
	}
	in := make([]reflect.Value, len(args))
	ft := reflect.TypeOf(rawFn[sym])
	for i, a := range args {
		if a == nil {
			in[i] = reflect.Zero(ft.In(i))
		} else {
			in[i] = reflect.ValueOf(a)
		}
	}
	return reflect.ValueOf(rawFn[sym]).Call(in)[0].Interface()
}

// gvKey gives a map key for memoising argument tuples.
func gvKey(args []GV) string {
	var sb strings.Builder
	for _, a := range args {
		c := gvCell(a)
		for _, x := range c {
			sb.WriteString(strings.Repeat("", 0))
			sb.WriteString(itoa(x))
			sb.WriteByte(',')
		}
		sb.WriteByte('|')
	}
	return sb.String()
}

func itoa(i int) string {
	if i == 0 {
		return "0"
	}
	neg := i < 0
	if neg {
		i = -i
	}
	var b [20]byte
	p := len(b)
	for i > 0 {
		p--
		b[p] = byte('0' + i%10)
		i /= 10
	}
	if neg {
		p--
		b[p] = '-'
	}
	return string(b[p:])
}

// Table accumulates args -> result entries for one function symbol.
type Table struct {
	Sym  string     `json:"sym"`
	ArgT string     `json:"argt"`
	ResT string     `json:"rest"`
	Rows [][]Cell   `json:"rows"` // each row: arg cells ..., result cell (last)
	seen map[string]bool
}

func newTable(sym string) *Table {
	e := fnReg[sym]
	return &Table{Sym: sym, ArgT: e.ArgT, ResT: e.ResT, Rows: [][]Cell{}, seen: map[string]bool{}}
}

func (t *Table) add(args []GV) GV {
	res := callFn(t.Sym, args...)
	k := gvKey(args)
	if !t.seen[k] {
		t.seen[k] = true
		row := make([]Cell, 0, len(args)+1)
		for _, a := range args {
			row = append(row, gvCell(a))
		}
		row = append(row, gvCell(res))
		t.Rows = append(t.Rows, row)
	}
	return res
}
