package main

func init() {
	generators["C19"] = genC19
	generators["C15"] = genC15
}

func (g *Gen) sqlConf() *SqlConf {
	c := &SqlConf{Table: []string{"t", "my table", "T1", "tab\"le", "é", "\"s\".\"t\"", "`t`", "\"\"", "'q'"}[g.rng.Intn(9)]}
	switch g.rng.Intn(6) {
	case 0:
		c.Dialect = "postgres"
	case 1:
		c.Dialect = "sqlite"
	case 2:
		c.Dialect = "mysql"
	case 3:
		c.Escape = []int{'"', '`', '\'', '[', 0x00e9}[g.rng.Intn(5)]
		c.Incr = g.rng.Intn(2) == 0
	case 4:
		c.Incr = true
	}
	c.PresetLast = c.Dialect != "" && g.rng.Intn(2) == 0
	return c
}

func genC19(g *Gen) {
	g.arrangedFrames("sql arranged", func(f int) {
		conf := g.sqlConf()
		g.do(Step{Op: "ToSQL", Recv: f, Sql: conf})
		g.do(Step{Op: "ReadSQL", Recv: -1, Other: f + 1, Sql: conf})
	})
	sizes := []int{1, 1, 2, 3, 5, 9, 20}
	if g.thorough() {
		sizes = append(sizes, 60, 200)
	}
	colsets := []string{"ABF", "AFTSE", "SREX", "FS", "ATE", "FGX", "ABCFGTUSREDXY"}
	for rep := 0; rep < g.pick(160, 1500); rep++ {
		n := sizes[g.rng.Intn(len(sizes))]
		g.begin("sql round trip")
		f := g.do(g.stdNew(n, colsets[g.rng.Intn(len(colsets))], 12))
		if g.frame(f).Err != nil {
			g.end()
			continue
		}
		for k := g.rng.Intn(3); k > 0; k-- {
			f = g.derive(f)
		}
		if g.rng.Intn(4) == 0 {
			s := schemaOf(g.frame(f))
			if !s.err && len(s.names) > 1 {
				f = g.do(Step{Op: "Select", Recv: f, Cols: bsList(g.perm(s.names))})
			}
		}
		conf := g.sqlConf()
		g.do(Step{Op: "ToSQL", Recv: f, Sql: conf})
		g.do(Step{Op: "ReadSQL", Recv: -1, Other: f + 1, Sql: conf})
		g.end()
	}
	// the same frame written under several dialect configurations, one after the other, in one process
	for rep := 0; rep < g.pick(6, 40); rep++ {
		g.begin("sql dialect sequence")
		f := g.do(g.stdNew(1+g.rng.Intn(3), g.oneOf([]string{"AS", "ABF", "SE"}), 8))
		if g.frame(f).Err == nil {
			confs := []*SqlConf{{Table: "t", Dialect: "sqlite"}, {Table: "t", Dialect: "postgres"}, {Table: "t", Dialect: "mysql"}, {Table: "t"},
				{Table: "t", Escape: '"'}, {Table: "t", Escape: '"', Incr: true}, {Table: "t", Incr: true}}
			g.rng.Shuffle(len(confs), func(i, j int) { confs[i], confs[j] = confs[j], confs[i] })
			for _, c := range confs {
				g.do(Step{Op: "ToSQL", Recv: f, Sql: c})
			}
		}
		g.end()
	}
	// result sets with NULLs in text and float columns (leading, middle, trailing), coercions, errors
	mk := func(t string, i int64, f string, s string) SqlVal { return SqlVal{T: t, I: i, F: f, S: toBS(s)} }
	null := SqlVal{T: "null"}
	cellsOf := map[string][]SqlVal{
		"int":    {mk("int", 1, "", ""), mk("int", -5, "", ""), mk("int", 0, "", ""), mk("int", 1 << 40, "", "")},
		"float": {mk("float", 0, "1.5", ""), mk("float", 0, "-0", ""), mk("float", 0, "NaN", ""), mk("float", 0, "+Inf", ""), null, null,
			mk("float", 0, "1.005", ""), mk("float", 0, "2.675", ""), mk("float", 0, "0.125", ""), mk("float", 0, "1234.5678", ""), mk("float", 0, "-0.004", ""),
			mk("float", 0, "-0.25", ""), mk("float", 0, "-0.125", ""), mk("float", 0, "-3.375", ""), mk("float", 0, "2.5", ""), mk("float", 0, "-2.5", ""), mk("float", 0, "0.75", ""),
			mk("float", 0, "1e18", ""), mk("float", 0, "-1e300", ""), mk("float", 0, "5e-324", ""), mk("float", 0, "123456789.987654321", "")},
		"bool":   {{T: "bool", B: true}, {T: "bool", B: false}},
		"string": {mk("string", 0, "", "a"), mk("string", 0, "", ""), mk("bytes", 0, "", "raw\xff"), mk("string", 0, "", "1.25"), null, null},
		"numstr": {mk("string", 0, "", "1.25"), mk("string", 0, "", "-3"), mk("string", 0, "", "1e3"), mk("string", 0, "", "NaN"),
			mk("string", 0, "", "2.675"), mk("string", 0, "", "0.125"), mk("string", 0, "", "1234.56789"), mk("string", 0, "", "-0.0049"), mk("string", 0, "", "1e19"), mk("string", 0, "", "-Inf"),
			mk("string", 0, "", "-0.25"), mk("string", 0, "", "-0.125"), mk("string", 0, "", "-2.5"), mk("string", 0, "", "0.375")},
		"mixed":  {mk("int", 1, "", ""), mk("float", 0, "2.5", ""), mk("string", 0, "", "x"), null},
		"nulls":  {null},
	}
	// precision x coercion, systematically: a coerced text column next to a native float column and a text column
	for _, p := range []int{0, 1, 2, 3, 5} {
		for _, lead := range []int{0, 2} {
			rows := [][]SqlVal{}
			for i := 0; i < lead; i++ {
				rows = append(rows, []SqlVal{null, null, null})
			}
			for i, v := range cellsOf["numstr"] {
				fl := cellsOf["float"][(i*5+p)%len(cellsOf["float"])]
				rows = append(rows, []SqlVal{v, fl, v})
			}
			g.begin("readsql precision")
			g.do(Step{Op: "ReadSQL", Recv: -1, Cols: bsList([]string{"price", "rate", "txt"}), Rs: rows,
				Sql: &SqlConf{Precision: p, CoerceNames: []BS{toBS("price")}, CoerceKinds: []int{2}, Dialect: []string{"", "sqlite", "postgres"}[(p+lead)%3], PresetLast: p%2 == 1}})
			g.end()
		}
	}
	kinds := []string{"int", "float", "bool", "string", "numstr", "float", "string", "mixed", "nulls", "int"}
	for rep := 0; rep < g.pick(400, 2500); rep++ {
		nc := 1 + g.rng.Intn(4)
		nr := g.rng.Intn(6)
		names := []BS{}
		ck := []string{}
		conf := &SqlConf{}
		for j := 0; j < nc; j++ {
			nm := []string{"a", "b", "c", "d", "", "a"}[g.rng.Intn(g.pick(4, 6))] + string(rune('0'+j))
			if g.rng.Intn(30) == 0 {
				nm = "dup"
			}
			names = append(names, toBS(nm))
			k := kinds[g.rng.Intn(g.pick(7, len(kinds)))]
			ck = append(ck, k)
			if k == "int" && g.rng.Intn(3) == 0 {
				conf.CoerceNames, conf.CoerceKinds = append(conf.CoerceNames, toBS(nm)), append(conf.CoerceKinds, 1)
			}
			if k == "numstr" && g.rng.Intn(2) == 0 {
				conf.CoerceNames, conf.CoerceKinds = append(conf.CoerceNames, toBS(nm)), append(conf.CoerceKinds, 2)
			}
			if g.rng.Intn(40) == 0 {
				conf.CoerceNames, conf.CoerceKinds = append(conf.CoerceNames, toBS(nm)), append(conf.CoerceKinds, 1+g.rng.Intn(2))
			}
		}
		if g.rng.Intn(3) == 0 {
			conf.Precision = []int{1, 2, 2, 3, 6}[g.rng.Intn(5)]
		}
		if g.rng.Intn(3) == 0 {
			conf.Dialect, conf.PresetLast = g.oneOf([]string{"sqlite", "postgres", "mysql"}), g.rng.Intn(2) == 0
		}
		rows := [][]SqlVal{}
		for i := 0; i < nr; i++ {
			row := []SqlVal{}
			for j := 0; j < nc; j++ {
				pool := cellsOf[ck[j]]
				row = append(row, pool[g.rng.Intn(len(pool))])
			}
			rows = append(rows, row)
		}
		g.begin("readsql")
		g.do(Step{Op: "ReadSQL", Recv: -1, Cols: names, Rs: rows, Sql: conf})
		g.end()
	}
}

// C15: fault enumeration. For each input of a corpus the call is executed once per fault position,
// all positions: byte offsets of the reader (error with or after the last delivered bytes), byte
// offsets of the writer, call numbers of the SQL driver.
func genC15(g *Gen) {
	csvDocs := []string{
		"a,b\n1,2\n3,4\n5,6\n",
		"a,b\n1,2\n3,4\n5,6",
		"x\n\"q\"\"uoted\"\n\"multi\nline\"\nplain\n",
		"h1,h2,h3\r\n1,\"a,b\",true\r\n2,\"c\"\"d\",false\r\n",
		"only\n",
		"a,b,c\n1,2,\n",
		"a,b\n1,2\n3,4,5\n6,7\n", // malformed: a line longer than the header
		"a,b\n1,2,\n",
		"a\n1,\"x,y\",3\n",
	}
	// a longer document crossing the 1 KiB scan buffer
	long := "id,text,val\n"
	for i := 0; i < g.pick(40, 220); i++ {
		long += itoa(i) + ",\"row " + itoa(i) + " with, comma and \"\"quotes\"\"\"," + itoa(i*7%13) + ".5\n"
	}
	csvDocs = append(csvDocs, long)
	for di, d := range csvDocs {
		doc := toBS(d)
		for k := 0; k <= len(d)+1; k++ {
			for _, with := range []bool{false, true} {
				if with && (k == 0 || k > len(d)) {
					continue
				}
				g.begin("readcsv fault")
				sched := [][]int{nil, {1}, {7}, {64, 3}}[(k+di)%4]
				g.do(Step{Op: "ReadCSV", Recv: -1, Doc: doc, Csv: &CsvConf{}, Reads: sched, Fault: &FaultPos{Kind: "read", At: k, With: with}})
				g.end()
			}
		}
	}
	jsonDocs := []string{`[{"a":1,"b":"x"},{"a":2.5,"b":null},{"a":-3,"b":"yy"}]`, `[]`, `[{"k":true}]`}
	for _, d := range jsonDocs {
		for k := 0; k <= len(d)+1; k++ {
			g.begin("readjson fault")
			g.do(Step{Op: "ReadJSON", Recv: -1, Doc: toBS(d), Reads: [][]int{nil, {1}, {5}}[k%3], Fault: &FaultPos{Kind: "read", At: k, With: k%2 == 1 && k > 0 && k <= len(d)}})
			g.end()
		}
	}
	// writers: frames whose CSV / JSON stay below, and exceed, 4096 and 8192 bytes (the CSV writer buffers 4 KiB)
	for _, n := range []int{0, 1, 3, g.pick(150, 400)} {
		g.begin("write faults")
		f := g.do(g.stdNew(n, "AFSE", 12))
		// lengths of the complete outputs, learnt from an unfaulted run
		g.do(Step{Op: "ToCSV", Recv: f})
		g.do(Step{Op: "ToJSON", Recv: f})
		csvLen := lastBytesLen(g, "ToCSV")
		jsonLen := lastBytesLen(g, "ToJSON")
		g.end()
		for _, op := range []string{"ToCSV", "ToJSON"} {
			total := csvLen
			if op == "ToJSON" {
				total = jsonLen
			}
			step := 1
			if total > 3000 && !g.thorough() {
				step = 7 // quick: every 7th offset of the big outputs plus the buffer boundaries below
			}
			ks := []int{}
			for k := 0; k <= total+1; k += step {
				ks = append(ks, k)
			}
			for _, b := range []int{4095, 4096, 4097, 8191, 8192, 8193, total - 1, total} {
				if b >= 0 && b <= total+1 {
					ks = append(ks, b)
				}
			}
			// one frame per 40 fault positions (the frame is rebuilt per scenario; each write is independent)
			for i := 0; i < len(ks); i += 40 {
				g.begin("write fault")
				ff := g.do(g.cur0(f))
				for _, k := range ks[i:minI(i+40, len(ks))] {
					g.do(Step{Op: op, Recv: ff, Fault: &FaultPos{Kind: "write", At: k}})
				}
				g.end()
			}
		}
	}
	// SQL driver: every call number
	for _, n := range []int{1, 2, 5, g.pick(12, 50)} {
		for k := 1; k <= 2*n+2; k++ {
			g.begin("tosql fault")
			f := g.do(g.stdNew(n, "AFS", 6))
			g.do(Step{Op: "ToSQL", Recv: f, Sql: &SqlConf{Table: "t"}, Fault: &FaultPos{Kind: "driver", At: k}})
			g.end()
		}
		rows := [][]SqlVal{}
		for i := 0; i < n; i++ {
			rows = append(rows, []SqlVal{{T: "int", I: int64(i)}, {T: "string", S: toBS("s" + itoa(i))}})
		}
		for k := 1; k <= n+4; k++ {
			g.begin("readsql fault")
			g.do(Step{Op: "ReadSQL", Recv: -1, Cols: bsList([]string{"a", "b"}), Rs: rows, Sql: &SqlConf{}, Fault: &FaultPos{Kind: "driver", At: k}})
			g.end()
		}
	}
}

var lastNew Step

// cur0 returns the New step that built frame f in the previous scenario (the writer faults rebuild it)
func (g *Gen) cur0(f int) Step { return lastNew }

func lastBytesLen(g *Gen, op string) int {
	return g.x.lastLen[op]
}
