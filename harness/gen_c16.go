package main

import (
	"math"
	"strconv"
)

func init() { generators["C16"] = genC16 }

// Structured sampling of binary64 (not 2^64): every biased exponent x mantissa patterns, both
// signs, powers of two and ten with their neighbours, exact integers around 2^53, halfway decimal
// cases, subnormal extremes, short decimals; each through AppendFloat64f with varied destination
// buffers, and through ToJSON of a float column.
func (g *Gen) c16Floats() []float64 {
	fs := []float64{}
	add := func(f float64) {
		if !math.IsNaN(f) {
			fs = append(fs, f)
		}
	}
	// neighbours in a column: values that are equal under == but not identical, runs of one value
	for _, f := range []float64{0, math.Copysign(0, -1), 0, math.Copysign(0, -1), math.Copysign(0, -1), 0, 1.5, 1.5, -1.5, 1.5, 1e300, 1e300, 0} {
		add(f)
	}
	mants := []uint64{0, 1, 2, 1<<52 - 1, 1 << 51, 0xAAAAAAAAAAAAA, 0x5555555555555}
	expStep := g.pick(7, 1)
	for e := g.rng.Intn(expStep); e <= 2046; e += expStep {
		for _, m := range mants {
			add(math.Float64frombits(uint64(e)<<52 | m))
		}
		for k := 0; k < g.pick(1, 6); k++ {
			add(math.Float64frombits(uint64(e)<<52 | uint64(g.rng.Int63())&(1<<52-1)))
		}
	}
	for p := -1074; p <= 1023; p += g.pick(13, 1) {
		x := math.Ldexp(1, p)
		add(x)
		add(math.Nextafter(x, 0))
		add(math.Nextafter(x, math.Inf(1)))
	}
	for p := -323; p <= 308; p += g.pick(5, 1) {
		x, _ := strconv.ParseFloat("1e"+strconv.Itoa(p), 64)
		add(x)
		add(math.Nextafter(x, 0))
		add(math.Nextafter(x, math.Inf(1)))
	}
	for _, b := range []float64{1 << 53, 1 << 52, 1e15, 1e16, 1e17, 1e21, 1e22, 1e23, 123456789012345680} {
		for d := -2.0; d <= 2; d++ {
			add(b + d)
		}
	}
	for _, s := range []string{"0.1", "0.2", "0.3", "0.30000000000000004", "5e-324", "1.7976931348623157e308", "2.2250738585072014e-308", "2.225073858507201e-308",
		"9007199254740993", "0.5", "0.25", "0.125", "1.5", "123.456", "100", "1000000", "0.000001", "0.0000001", "123456789.125", "4.35", "2.675", "1.005", "8.41", "0.045",
		"9.5", "1e23", "8.5e-7", "4.9406564584124654e-324", "1.2345678901234567", "12345678901234567890", "0", "+Inf"} {
		x, _ := strconv.ParseFloat(s, 64)
		add(x)
	}
	for k := 0; k < g.pick(300, 20000); k++ {
		add(math.Float64frombits(g.rng.Uint64()))
		add(float64(g.rng.Intn(1000000)) / []float64{1, 10, 100, 1000, 1e6}[g.rng.Intn(5)]) // short decimals
	}
	// integer-valued floats from 2^54 up, where neighbouring floats are 4, 8, ... apart: odd mantissas whose
	// interval end points (the midpoints to the neighbours) are round decimals - the bounds of the shortest
	// digit search are exclusive there; plus unselected ones
	for sh := uint(2); sh <= 40; sh++ {
		for k := 0; k < g.pick(40, 400); k++ {
			m := uint64(1)<<52 | uint64(g.rng.Int63())&(1<<52-1) | 1
			if sh <= 10 {
				v, h := m<<sh, uint64(1)<<(sh-1)
				if (v+h)%10 == 0 || (v-h)%10 == 0 || k%8 == 0 {
					add(float64(v))
				}
			} else if k%8 == 0 {
				add(math.Ldexp(float64(m), int(sh)))
			}
		}
	}
	for k := 0; k < g.pick(200, 5000); k++ {
		add(float64(g.rng.Uint64()))
	}
	// every power of two that is an integer type's limit or near one, with its neighbours
	for _, p := range []int{7, 8, 15, 16, 24, 31, 32, 52, 53, 54, 62, 63, 64, 65, 127, 128} {
		x := math.Ldexp(1, p)
		add(x)
		add(math.Nextafter(x, 0))
		add(math.Nextafter(x, math.Inf(1)))
	}
	// dyadic rationals k / 2^n: their exact decimal expansions end in 5 - the exact-tie cases of digit
	// generation (round half to even on the last digit)
	for n := 1; n <= 60; n++ {
		for k := 1; k <= 33; k += 2 {
			if g.thorough() || (n+k)%3 == 0 {
				add(math.Ldexp(float64(k), -n))
			}
		}
	}
	for k := 0; k < g.pick(150, 3000); k++ { // and larger ones: an integer part plus a short dyadic fraction
		add(float64(g.rng.Intn(1<<uint(g.rng.Intn(44)))) + math.Ldexp(float64(1+2*g.rng.Intn(16)), -1-g.rng.Intn(24)))
	}
	// decimals with exactly n significant digits, n = 1..17, at many scales: the digit-generation code
	// switches its arithmetic by digit count (8, 9, 10 digits: 32-bit limits; 16, 17: the maximum)
	for nd := 1; nd <= 17; nd++ {
		for k := 0; k < g.pick(14, 200); k++ {
			lo := int64(1)
			for i := 1; i < nd; i++ {
				lo *= 10
			}
			d := lo + g.rng.Int63n(9*lo)
			if k%3 == 0 && nd == 10 {
				d = 4294967296 + g.rng.Int63n(9999999999-4294967296)
			}
			if d%10 == 0 {
				d++
			}
			x, err := strconv.ParseFloat(strconv.FormatInt(d, 10)+"e"+strconv.Itoa(g.rng.Intn(41)-25), 64)
			if err == nil {
				add(x)
			}
		}
	}
	// the layout of positional notation: every decimal with one or two significant digits at every scale
	// from 1e-45 to 1e45 (thorough; a sample in quick): leading "0.000", trailing zeros, the point's position
	for d := 1; d <= 99; d++ {
		if d%10 == 0 {
			continue
		}
		for e := -45; e <= 45; e++ {
			if !g.thorough() && (d*7+e*13)%23 != 0 {
				continue
			}
			if x, err := strconv.ParseFloat(strconv.Itoa(d)+"e"+strconv.Itoa(e), 64); err == nil {
				add(x)
			}
		}
	}
	add(4294967296)
	add(4294967295)
	add(4294967297)
	add(5123456789)
	add(0.4294967297)
	n := len(fs)
	for i := 0; i < n; i += 2 {
		fs = append(fs, -fs[i])
	}
	add(math.Copysign(0, -1))
	add(math.Inf(-1))
	return fs
}

func genC16(g *Gen) {
	fs := g.c16Floats()
	const batch = 60
	for i := 0; i < len(fs); i += batch {
		j := i + batch
		if j > len(fs) {
			j = len(fs)
		}
		g.begin("floats")
		for _, f := range fs[i:j] {
			st := Step{Op: "FloatFmt", Recv: -1, Fl: fmtFloat(f)}
			switch g.rng.Intn(4) {
			case 0: // empty buffer, no capacity
			case 1:
				st.A = g.rng.Intn(4)
			case 2:
				st.B = g.rng.Intn(400)
			default:
				st.A, st.B = g.rng.Intn(4), g.rng.Intn(40)
			}
			st.Opts = []int{[]int{'9', '0', '.', '-', 0}[g.rng.Intn(5)]}
			g.do(st)
		}
		g.end()
	}
	// through ToJSON of a float column (finite values only; infinities are outside JSON)
	for i := 0; i < len(fs); i += 500 {
		j := i + 500
		if j > len(fs) {
			j = len(fs)
		}
		part := []float64{}
		for _, f := range fs[i:j] {
			if !math.IsInf(f, 0) {
				part = append(part, f)
			}
		}
		texts := jsonFloats(part)
		g.begin("floats via ToJSON")
		st := Step{Op: "FloatJSONBatch", Recv: -1}
		for _, f := range part {
			st.Data = append(st.Data, ColData{Kind: "float", Floats: []string{fmtFloat(f)}})
		}
		g.cur.Steps = append(g.cur.Steps, st)
		for k, f := range part {
			ev := Ev{"scn": g.x.scn, "prop": g.prop, "i": k + 1, "op": "FloatJSON", "recv": -1, "out": -1, "pan": 0}
			var out []byte
			if k < len(texts) {
				out = texts[k]
			}
			g.x.floatEvent(ev, f, nil, out)
			g.x.emit(ev)
		}
		g.end()
	}
}
