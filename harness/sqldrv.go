package main

// A recording and storing in-memory database/sql/driver (standard library only). It logs every
// driver call with statement text and arguments, stores the rows INSERTed, serves result sets back,
// and can fail at the k-th driver call (C15, C19).

import (
	"database/sql"
	"database/sql/driver"
	"fmt"
	"io"
	"math"
	"sync"
)

type sqlCall struct {
	Kind string
	Stmt string
	Args []driver.Value
}

type memDB struct {
	mu      sync.Mutex
	calls   []sqlCall
	rsNames []string
	rsRows  [][]driver.Value
	failAt  int // fail at the k-th call (1-based); 0 = never
	ncall   int
	fired   bool
	stored  [][]driver.Value
}

func (db *memDB) call(kind, stmt string, args []driver.Value) error {
	db.mu.Lock()
	defer db.mu.Unlock()
	db.ncall++
	db.calls = append(db.calls, sqlCall{kind, stmt, args})
	if db.failAt > 0 && db.ncall >= db.failAt {
		db.fired = true
		return errInjected
	}
	return nil
}

var (
	memDBs   = map[string]*memDB{}
	memDBsMu sync.Mutex
	memSeq   int
)

type memDriver struct{}

func init() { sql.Register("verifmem", memDriver{}) }

func (memDriver) Open(name string) (driver.Conn, error) {
	memDBsMu.Lock()
	db := memDBs[name]
	memDBsMu.Unlock()
	if db == nil {
		return nil, fmt.Errorf("no such mem db %s", name)
	}
	return &memConn{db}, nil
}

func newMemDB() (*memDB, *sql.DB) {
	memDBsMu.Lock()
	memSeq++
	name := fmt.Sprintf("db%d", memSeq)
	db := &memDB{}
	memDBs[name] = db
	memDBsMu.Unlock()
	h, err := sql.Open("verifmem", name)
	if err != nil {
		panic(err)
	}
	return db, h
}

type memConn struct{ db *memDB }

func (c *memConn) Prepare(q string) (driver.Stmt, error) {
	if err := c.db.call("Prepare", q, nil); err != nil {
		return nil, err
	}
	return &memStmt{c.db, q}, nil
}
func (c *memConn) Close() error { return nil }
func (c *memConn) Begin() (driver.Tx, error) {
	return memTx{}, nil // Begin / Commit / Rollback belong to the caller, not to ToSQL / ReadSQL
}

type memTx struct{}

func (memTx) Commit() error   { return nil }
func (memTx) Rollback() error { return nil }

type memStmt struct {
	db *memDB
	q  string
}

func (s *memStmt) Close() error  { return nil }
func (s *memStmt) NumInput() int { return -1 }
func (s *memStmt) Exec(args []driver.Value) (driver.Result, error) {
	cp := append([]driver.Value{}, args...)
	if err := s.db.call("Exec", s.q, cp); err != nil {
		return nil, err
	}
	s.db.mu.Lock()
	s.db.stored = append(s.db.stored, cp)
	s.db.mu.Unlock()
	return driver.RowsAffected(1), nil
}
func (s *memStmt) Query(args []driver.Value) (driver.Rows, error) {
	if err := s.db.call("Query", s.q, append([]driver.Value{}, args...)); err != nil {
		return nil, err
	}
	return &memRows{db: s.db}, nil
}

type memRows struct {
	db   *memDB
	pos  int
	prev []byte
}

func (r *memRows) Columns() []string { return r.db.rsNames }
func (r *memRows) Close() error      { return nil }
func (r *memRows) Next(dest []driver.Value) error {
	if err := r.db.call("Next", "", nil); err != nil {
		return err
	}
	if r.pos >= len(r.db.rsRows) {
		return io.EOF
	}
	copy(dest, r.db.rsRows[r.pos])
	// database/sql allows a driver to reuse the memory of []byte values between calls of Next ("the
	// driver.Value slices are only valid until the next call"): what the previous row handed out is
	// overwritten when the next row is delivered
	for i := range r.prev {
		r.prev[i] = '#'
	}
	cur := []byte{}
	for _, v := range dest {
		if b, ok := v.([]byte); ok {
			cur = append(cur, b...)
		}
	}
	off := 0
	for i, v := range dest {
		if b, ok := v.([]byte); ok {
			dest[i] = cur[off : off+len(b) : off+len(b)]
			off += len(b)
		}
	}
	r.prev = cur
	r.pos++
	return nil
}

// sqlVal renders a driver value in the specification's encoding: [t, c]
func sqlVal(v driver.Value) Ev {
	switch t := v.(type) {
	case nil:
		return Ev{"t": "null", "c": nullCell}
	case int64:
		return Ev{"t": "int", "c": encInt(int(t))}
	case float64:
		if math.IsNaN(t) {
			return Ev{"t": "float", "c": nullCell}
		}
		return Ev{"t": "float", "c": encFloat(t)}
	case bool:
		return Ev{"t": "bool", "c": encBool(t)}
	case string:
		return Ev{"t": "string", "c": encStr(t)}
	case []byte:
		return Ev{"t": "bytes", "c": encStr(string(t))}
	}
	return Ev{"t": "other", "c": nullCell}
}

func callsTla(calls []sqlCall) []Ev {
	r := []Ev{}
	for _, c := range calls {
		args := []Ev{}
		for _, a := range c.Args {
			args = append(args, sqlVal(a))
		}
		r = append(r, Ev{"kind": c.Kind, "stmt": toBS(c.Stmt), "args": args})
	}
	return r
}
