-------------------------------- MODULE Sql --------------------------------
(***************************************************************************)
(* ToSQL / ReadSQL (C19) against a recording, storing database/sql driver.  *)
(*   calls : Seq([kind, stmt : bytes, args : Seq([t, c])]) as the driver    *)
(*           saw them (kind in Prepare Exec Query Next)                     *)
(*   value : [t, c], t in null int float bool string bytes                  *)
(***************************************************************************)
EXTENDS Str

Lit(s) == s    \* byte strings are written as tuples of codes below
INSERT_INTO == <<73, 78, 83, 69, 82, 84, 32, 73, 78, 84, 79, 32>>          \* "INSERT INTO "
VALUES == <<41, 32, 86, 65, 76, 85, 69, 83, 32, 40>>                        \* ") VALUES ("

Quote(s, esc) == IF esc = 0 THEN s ELSE Utf8Enc(esc) \o s \o Utf8Enc(esc)
InsertText(table, names, esc, incr) ==
  INSERT_INTO \o Quote(table, esc) \o <<32, 40>>
  \o JoinWith([i \in 1..Len(names) |-> Quote(names[i], esc)], <<44>>)
  \o VALUES
  \o JoinWith([i \in 1..Len(names) |-> IF incr = 1 THEN <<36>> \o DecBytes(i) ELSE <<63>>], <<44>>)
  \o <<41, 59>>

\* the argument a cell of a column of type typ is passed as
ArgOf(typ, cell) ==
  CASE typ = "int" -> [t |-> "int", c |-> cell]
    [] typ = "float" -> [t |-> "float", c |-> cell]
    [] typ = "bool" -> [t |-> "bool", c |-> cell]
    [] OTHER -> IF IsNull(cell) THEN [t |-> "null", c |-> NullCell] ELSE [t |-> "string", c |-> cell]

\* identity of cells up to the sign-of-zero flag is kept by the driver encoding: compare whole cells
ToSqlOK(f, conf, calls, err) ==
  LET execs == SelectSeq(calls, LAMBDA c : c.kind = "Exec")
      text == InsertText(conf.table, Names(f), conf.escape, conf.incr)
  IN /\ err = 0
     /\ Len(execs) = f.n                                         \* one INSERT per row ...
     /\ \A r \in 1..f.n :                                        \* ... in frame order
          /\ execs[r].stmt = text
          /\ Len(execs[r].args) = Len(f.cols)
          /\ \A c \in 1..Len(f.cols) : execs[r].args[c] = ArgOf(f.cols[c].typ, f.cols[c].cells[r])

(***************************************************************************)
(* ReadSQL: column type from the first non-NULL value; leading NULLs are    *)
(* back-filled in text and float columns; entirely NULL columns are       *)
(* rejected, NULL in int / bool columns is unspecified; coercions Int64ToBool (1) and       *)
(* StringToFloat (2).                                                      *)
(***************************************************************************)
SqlKind(v) == CASE v.t = "int" -> "int" [] v.t = "float" -> "float" [] v.t = "bool" -> "bool"
                [] v.t \in {"string", "bytes"} -> "string" [] OTHER -> "null"

\* one column of the result set: [st, col]
SqlColumn(name, vals, coerce, fparse, precision) ==
  LET kinds == {SqlKind(vals[r]) : r \in 1..Len(vals)} \ {"null"}
      firstNN == SelectInSeq(vals, LAMBDA v : v.t # "null")
  IN
  IF coerce = 1 THEN
     IF \E r \in 1..Len(vals) : vals[r].t # "int" THEN [st |-> "err"]
     ELSE [st |-> "ok", col |-> PlainCol(name, "bool", [r \in 1..Len(vals) |-> IF vals[r].c = IntCell(0) THEN <<0, 0, 0>> ELSE <<0, 0, 1>>])]
  ELSE IF coerce = 2 THEN
     IF \E r \in 1..Len(vals) : vals[r].t # "string" THEN [st |-> "err"]
     ELSE LET p == [r \in 1..Len(vals) |-> Lookup1(fparse, vals[r].c)] IN
          IF \E r \in 1..Len(vals) : p[r] = <<2>> THEN [st |-> "miss"]
          ELSE IF \E r \in 1..Len(vals) : p[r] = <<1>> THEN [st |-> "err"]
          ELSE [st |-> "ok", col |-> PlainCol(name, "float", [r \in 1..Len(vals) |-> IF p[r] = <<5>> THEN NullCell ELSE p[r]])]
  ELSE IF Cardinality(kinds) = 0 THEN [st |-> "err"]                       \* entirely NULL
  ELSE IF Cardinality(kinds) > 1 THEN [st |-> "unspec"]                    \* values of several types in one column
  ELSE LET k == CHOOSE x \in kinds : TRUE IN
       IF k \in {"int", "bool"} THEN
          \* a NULL in an int / bool column: outside C19's quantifier ("NULLs occur in text or float
          \* columns"); the code rejects it after the first value and drops it before - unspecified
          IF \E r \in 1..Len(vals) : vals[r].t = "null" THEN [st |-> "unspec"]
          ELSE [st |-> "ok", col |-> PlainCol(name, k, [r \in 1..Len(vals) |-> vals[r].c])]
       ELSE [st |-> "ok", col |-> PlainCol(name, k, [r \in 1..Len(vals) |-> IF vals[r].t = "null" THEN NullCell ELSE vals[r].c])]

(***************************************************************************)
(* Precision(p), p > 0: every value delivered for a float column - native  *)
(* float64 or coerced text - is rounded to p decimals; NULLs become NaN as *)
(* before.  "x rounded to p decimals" is the binary64 nearest to            *)
(* round-half-away(x 10^p) / 10^p; NaN and the infinities stay.  The        *)
(* harness logs, per value, the set of admissible results computed with    *)
(* exact rational arithmetic (fround: <<x, r1, r2, ..>>; more than one      *)
(* where x 10^p is a tie within 10^-6 or beyond 2^31, where the last bit    *)
(* is not fixed by the documentation; both zeros for a zero result).        *)
(* ReadSqlSem gives the frame BEFORE rounding; RoundedCols the columns that *)
(* are rounded; RoundOK judges one cell.                                    *)
(***************************************************************************)
RoundRow(fround, x) == SelectInSeq(fround, LAMBDA row : row[1] = x)
RoundMiss(fround, x) == ~IsNull(x) /\ RoundRow(fround, x) = 0
RoundOK(fround, x, r) ==
  IF IsNull(x) THEN IsNull(r)        \* NULL and NaN stay NaN
  ELSE LET k == RoundRow(fround, x) IN k # 0 /\ \E i \in 2..Len(fround[k]) : fround[k][i] = r
RoundedCols(f, conf) == IF conf.precision > 0 /\ ~f.err THEN {c \in 1..Len(f.cols) : f.cols[c].typ = "float"} ELSE {}

ReadSqlSem(names, rows, conf, fparse) ==
  IF Len(rows) = 0 THEN EmptyFrame
  ELSE IF HasDup(names) THEN Unspec
  ELSE IF \E k \in 1..Len(conf.coerce) : ~(\E i \in 1..Len(names) : names[i] = conf.coerce[k].name) THEN Unspec
  ELSE LET co(nm) == LET k == SelectLastInSeq(conf.coerce, LAMBDA x : x.name = nm) IN IF k = 0 THEN 0 ELSE conf.coerce[k].kind
           cols == [i \in 1..Len(names) |->
                      SqlColumn(names[i], [r \in 1..Len(rows) |-> rows[r][i]], co(names[i]), fparse, conf.precision)]
           sts == {cols[i].st : i \in 1..Len(names)}
       IN IF "miss" \in sts THEN [err |-> FALSE, n |-> 1, cols |-> <<PlainCol(<<>>, "miss", <<<<2>>>>)>>]
          ELSE IF "err" \in sts THEN ErrFrame
          ELSE IF "unspec" \in sts THEN Unspec
          ELSE IF \E i \in 1..Len(names) : ~NameOK(names[i]) THEN ErrFrame
          ELSE [err |-> FALSE, n |-> Len(rows), cols |-> [i \in 1..Len(names) |-> cols[i].col]]

\* C19 round trip: a frame written to a store and read back is reproduced, enum columns as strings
SqlRoundTripApplies(f) ==
  ~f.err /\ f.n >= 1 /\ Len(f.cols) >= 1
  /\ \A k \in 1..Len(f.cols) : f.cols[k].typ \in {"int", "float", "bool", "string", "enum"}
        /\ (f.cols[k].typ \in {"string", "enum"} => \E r \in 1..f.n : ~IsNull(f.cols[k].cells[r]))
SqlRoundTripOK(f, o) ==
  /\ o.len = f.n /\ o.names = Names(f) /\ Len(o.cols) = Len(f.cols)
  /\ \A k \in 1..Len(f.cols) :
       /\ o.types[k] = (IF f.cols[k].typ = "enum" THEN "string" ELSE f.cols[k].typ)
       /\ o.cols[k] = f.cols[k].cells
=============================================================================
