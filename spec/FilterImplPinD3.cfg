SPECIFICATION Spec
CONSTANTS
  MaxRows = 2
  Depth2 = FALSE
  PinD2 = FALSE
  PinD3 = TRUE
  Emit = FALSE
INVARIANT Refines
CHECK_DEADLOCK FALSE
