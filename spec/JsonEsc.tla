------------------------------ MODULE JsonEsc ------------------------------
(***************************************************************************)
(* Mechanism model of the JSON string writer (C14):                        *)
(* internal/strings.AppendQuotedString as a byte transducer, and the way   *)
(* ToJSON assembles a record from column names and cells.                  *)
(*                                                                         *)
(* RoundTrips: for every byte string s (over an alphabet of the bytes that *)
(* matter: printable, quote, backslash, control characters, DEL, the lead  *)
(* and continuation bytes of U+00A0-like and U+2028/2029 sequences, 0xFF)  *)
(* the record  [{ Quote(name) : Quote(s) }]  is valid JSON by the          *)
(* recogniser of JsonG.tla and decodes to TextOf(name), TextOf(s) - i.e.   *)
(* escaping composed with decoding is the identity up to U+FFFD for        *)
(* invalid bytes, for values AND for column names.                         *)
(* PinD9 re-enables the pinned behaviour (names written unescaped) and     *)
(* must make the check fail.                                               *)
(***************************************************************************)
EXTENDS JsonG, Json

CONSTANTS MaxLenS, AlphabetS, PinD9, Emit

HexDigit(n) == IF n < 10 THEN 48 + n ELSE 87 + n
\* AppendQuotedString without the surrounding quotes, one step per byte position (recursive over the index)
RECURSIVE Esc(_, _, _)
Esc(s, i, acc) ==
  IF i > Len(s) THEN acc
  ELSE LET c == s[i] IN
       IF c # 92 /\ c # 34 /\ c >= 32 /\ c < 128 THEN Esc(s, i + 1, Append(acc, c))
       ELSE IF c < 128 THEN
            Esc(s, i + 1, acc \o (CASE c = 9 -> <<92, 116>> [] c = 13 -> <<92, 114>> [] c = 10 -> <<92, 110>>
                                    [] c = 92 -> <<92, 92>> [] c = 34 -> <<92, 34>>
                                    [] OTHER -> <<92, 117, 48, 48, HexDigit(c \div 16), HexDigit(c % 16)>>))
       ELSE LET w == RuneWidth(s, i) IN
            IF w = 0 THEN Esc(s, i + 1, acc \o <<92, 117, 102, 102, 102, 100>>)            \* broken UTF-8 -> �
            ELSE IF w = 3 /\ s[i] = 226 /\ s[i + 1] = 128 /\ s[i + 2] \in {168, 169}
                 THEN Esc(s, i + 3, acc \o <<92, 117, 50, 48, 50, HexDigit(s[i + 2] - 160)>>)   \* U+2028 / U+2029
            ELSE Esc(s, i + w, acc \o SubSeq(s, i, i + w - 1))
Quoted(s) == <<34>> \o Esc(s, 1, <<>>) \o <<34>>
QuotedName(s) == IF PinD9 THEN <<34>> \o s \o <<34>> ELSE Quoted(s)

Strings == UNION {[1..k -> AlphabetS] : k \in 0..MaxLenS}

VARIABLES name, val, stage
vars == <<name, val, stage>>
Init == name = <<>> /\ val = <<>> /\ stage = 0
Next == stage = 0 /\ stage' = 1 /\ name' \in Strings /\ val' \in Strings
Spec == Init /\ [][Next]_vars

Record == <<91, 123>> \o QuotedName(name) \o <<58>> \o Quoted(val) \o <<125, 93>>
RoundTrips ==
  LET j == JRun(Record) IN
  /\ j.ok
  /\ Len(j.recs) = 1 /\ Len(j.recs[1]) = 1
  /\ j.recs[1][1].k = TextOf(name)
  /\ j.recs[1][1].t = "str" /\ j.recs[1][1].b = TextOf(val)

\* scenario: a frame with one string column of that name (prefixed to be a legal column name) holding val
EmitScn == (Emit /\ stage = 1) =>
  PrintT(<<"SCN", ToJson([steps |-> <<
     [op |-> "New", recv |-> -1, data |-> << [name |-> <<110>> \o name, kind |-> "string", strs |-> <<val, name>>] >>],
     [op |-> "ToJSON", recv |-> 0],
     [op |-> "ReadJSON", recv |-> -1, other |-> 1] >>])>>)
=============================================================================
