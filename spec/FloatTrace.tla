----------------------------- MODULE FloatTrace -----------------------------
(***************************************************************************)
(* Trace validation for C16.  One event per formatted float:               *)
(*   [scn, i, kind ("finite" "zero" "inf"), neg, m (limbs), e, low,        *)
(*    prefix (buffer content before the call), out (buffer after),         *)
(*    ref (strconv.FormatFloat(f,'f',-1,64), the reference C16 names)]     *)
(* Accepted iff out = prefix \o body, body = ref, and body is - by the     *)
(* mathematical definition of ShortestDec - the shortest round-tripping    *)
(* positional text of the value.                                           *)
(***************************************************************************)
EXTENDS ShortestDec, Json, IOUtils

Trace == ndJsonDeserialize(IOEnv.TRACE_FILE)
VARIABLES l, bad, judged
vars == <<l, bad, judged>>

Body(ev) == SubSeq(ev.out, Len(ev.prefix) + 1, Len(ev.out))
EventOK(ev) ==
  LET body == Body(ev)
      mag == IF ev.neg = 1 /\ Len(body) > 0 /\ body[1] = 45 THEN Tail(body) ELSE body
  IN /\ Len(ev.out) >= Len(ev.prefix) /\ SubSeq(ev.out, 1, Len(ev.prefix)) = ev.prefix
     /\ body = ev.ref
     /\ (ev.neg = 1 /\ ev.kind # "inf" => Len(body) > 0 /\ body[1] = 45)
     /\ CASE ev.kind = "zero" -> mag = <<48>>
          [] ev.kind = "inf" -> body = (IF ev.neg = 1 THEN <<45, 73, 110, 102>> ELSE <<43, 73, 110, 102>>)
          [] OTHER -> Shortest(ev.m, ev.e, ev.low = 1, mag)

Init == l = 1 /\ bad = {} /\ judged = 0
Next == /\ l <= Len(Trace)
        /\ l' = l + 1
        /\ judged' = judged + 1
        /\ bad' = IF EventOK(Trace[l]) THEN bad ELSE bad \cup {<<Trace[l].scn, Trace[l].i, "result">>}
Spec == Init /\ [][Next]_vars

Report ==
  l <= Len(Trace) \/
  PrintT(<<"VERIF-RESULT", ToJson([consumed |-> l - 1, lines |-> Len(Trace), bad |-> bad, herr |-> {},
                                   judged |-> judged, skipped |-> 0, unspec |-> 0])>>)
=============================================================================
