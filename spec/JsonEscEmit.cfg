SPECIFICATION Spec
CONSTANTS
  MaxCard = 255
  MaxLenS = 1
  AlphabetS = {97, 34, 92, 0, 10, 31, 127, 194, 128, 226, 168, 255}
  PinD9 = FALSE
  Emit = TRUE
INVARIANTS RoundTrips EmitScn
CHECK_DEADLOCK FALSE
