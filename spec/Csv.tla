-------------------------------- MODULE Csv --------------------------------
(***************************************************************************)
(* CSV (C12, C13, C09): the RFC 4180 denotation of a byte string, and what *)
(* ReadCSV promises to make of it under each configuration.                *)
(*                                                                         *)
(* Denote(doc, delim, keepCR) : bytes -> rows of fields (byte strings).    *)
(*   records end at an unquoted LF (a CR just before it is dropped), the   *)
(*   final record needs no line break, fields split at unquoted            *)
(*   delimiters, quoted fields may contain delimiters, line breaks and     *)
(*   doubled quotes; a record ending in a delimiter has a final empty      *)
(*   field; an empty line is a record of one empty field.  CRLF inside     *)
(*   quotes denotes CR LF (keepCR, RFC 4180) or LF (Go's encoding/csv and  *)
(*   the repository's CHANGELOG) - both readings are accepted (DESIGN 5.5).*)
(***************************************************************************)
EXTENDS ApplyEval

QUOTE == 34  LF == 10  CR == 13

DInit == [rows |-> <<>>, cur |-> <<>>, fld |-> <<>>, st |-> "FS", started |-> FALSE, ok |-> TRUE]
EndRec(a, lastField) ==
  [a EXCEPT !.rows = Append(a.rows, Append(a.cur, lastField)), !.cur = <<>>, !.fld = <<>>,
            !.st = "FS", !.started = FALSE]
\* states: FS field start, UQ inside unquoted field, CRU CR seen outside quotes, Q inside quotes,
\*         CRQ CR seen inside quotes, QQ quote seen inside quotes (closing quote or first of a doubled one)
DStep(delim, keepCR, a, b) ==
  IF ~a.ok THEN a ELSE
  CASE a.st = "FS" ->
         IF b = delim THEN [a EXCEPT !.cur = Append(a.cur, <<>>), !.started = TRUE]
         ELSE IF b = QUOTE THEN [a EXCEPT !.st = "Q", !.started = TRUE]
         ELSE IF b = LF THEN EndRec(a, <<>>)
         ELSE IF b = CR THEN [a EXCEPT !.st = "CRU", !.started = TRUE]
         ELSE [a EXCEPT !.fld = <<b>>, !.st = "UQ", !.started = TRUE]
    [] a.st = "UQ" ->
         IF b = delim THEN [a EXCEPT !.cur = Append(a.cur, a.fld), !.fld = <<>>, !.st = "FS"]
         ELSE IF b = LF THEN EndRec(a, a.fld)
         ELSE IF b = CR THEN [a EXCEPT !.st = "CRU"]
         ELSE IF b = QUOTE THEN [a EXCEPT !.ok = FALSE]        \* bare quote inside an unquoted field
         ELSE [a EXCEPT !.fld = Append(a.fld, b)]
    [] a.st = "CRU" -> IF b = LF THEN EndRec(a, a.fld) ELSE [a EXCEPT !.ok = FALSE]   \* bare CR
    [] a.st = "Q" ->
         IF b = QUOTE THEN [a EXCEPT !.st = "QQ"]
         ELSE IF b = CR THEN [a EXCEPT !.st = "CRQ"]
         ELSE [a EXCEPT !.fld = Append(a.fld, b)]
    [] a.st = "CRQ" ->
         IF b = LF THEN [a EXCEPT !.fld = IF keepCR THEN a.fld \o <<CR, LF>> ELSE Append(a.fld, LF), !.st = "Q"]
         ELSE [a EXCEPT !.ok = FALSE]
    [] a.st = "QQ" ->
         IF b = QUOTE THEN [a EXCEPT !.fld = Append(a.fld, QUOTE), !.st = "Q"]
         ELSE IF b = delim THEN [a EXCEPT !.cur = Append(a.cur, a.fld), !.fld = <<>>, !.st = "FS"]
         ELSE IF b = LF THEN EndRec(a, a.fld)
         ELSE IF b = CR THEN [a EXCEPT !.st = "CRU"]
         ELSE [a EXCEPT !.ok = FALSE]
DRun(doc, delim, keepCR) == FoldLeft(LAMBDA a, b : DStep(delim, keepCR, a, b), DInit, doc)
WellFormedCsv(doc, delim) == LET a == DRun(doc, delim, TRUE) IN a.ok /\ a.st \in {"FS", "UQ", "QQ"}
Denote(doc, delim, keepCR) ==
  LET a == DRun(doc, delim, keepCR) IN
  IF ~a.started THEN a.rows
  ELSE IF a.st = "FS" THEN Append(a.rows, Append(a.cur, <<>>))   \* record ended in a delimiter
  ELSE Append(a.rows, Append(a.cur, a.fld))

(***************************************************************************)
(* From rows to a frame.                                                   *)
(* conf = [emptynull, ignoreempty, delim, types : Seq([name, typ]),        *)
(*         enumvals : Seq([name, vals]), headers : Seq(bytes), renamedup,  *)
(*         alias : bytes]                                                  *)
(* parse rows: <<text, int cell|<<1>>, float cell|<<1>>|<<5>>, bool ...>>  *)
(*   the verdict of strconv.Atoi / ParseFloat / ParseBool on a field text  *)
(*   (<<5>> in the float slot = parses to NaN; <<1>> = does not parse)     *)
(***************************************************************************)
IsEmptyLine(row) == Len(row) = 1 /\ row[1] = <<>>

\* the decimal digits of a natural number as bytes
RECURSIVE DecBytes(_)
DecBytes(n) == IF n < 10 THEN <<48 + n>> ELSE Append(DecBytes(n \div 10), 48 + (n % 10))

\* RenameDuplicateColumns: a later occurrence of a name gets the first counter 0,1,2.. that makes it new
RenameDups(headers) ==
  FoldLeft(LAMBDA acc, i :
             LET h == headers[i] IN
             IF ~(\E j \in 1..Len(acc) : acc[j] = h) THEN Append(acc, h)
             ELSE LET taken(nm) == (\E j \in 1..Len(headers) : headers[j] = nm) \/ (\E j \in 1..Len(acc) : acc[j] = nm)
                      k == CHOOSE k \in 0..(Len(headers) + 1) :
                             ~taken(h \o DecBytes(k)) /\ \A m \in 0..(k - 1) : taken(h \o DecBytes(m))
                  IN Append(acc, h \o DecBytes(k)),
           <<>>, Iota(Len(headers)))

ParseRow(parse, text) == LET i == SelectInSeq(parse, LAMBDA r : r[1] = text) IN IF i = 0 THEN <<>> ELSE parse[i]

\* one column: [st, col]; fields = the column's cell texts in row order
CsvColumn(name, fields, conf, parse) ==
  LET ti == SelectLastInSeq(conf.types, LAMBDA t : t.name = name)      \* Types is a map: a later entry wins
      typ == IF ti = 0 THEN "" ELSE conf.types[ti].typ
      pr == [r \in 1..Len(fields) |-> ParseRow(parse, fields[r])]
      missing == \E r \in 1..Len(fields) : pr[r] = <<>>
      allInt == \A r \in 1..Len(fields) : pr[r][2] # <<1>>
      allFloat == \A r \in 1..Len(fields) : fields[r] = <<>> \/ pr[r][3] # <<1>>
      allBool == \A r \in 1..Len(fields) : pr[r][4] # <<1>>
      floatCell(r) == IF fields[r] = <<>> \/ pr[r][3] = <<5>> THEN NullCell ELSE pr[r][3]
      strCell(r) == IF fields[r] = <<>> /\ conf.emptynull = 1 THEN NullCell ELSE MkCell(fields[r])
      ei == SelectLastInSeq(conf.enumvals, LAMBDA e : e.name = name)
  IN
  IF Len(fields) = 0 /\ typ = "" THEN [st |-> "ok", col |-> PlainCol(name, "Undefined", <<>>)]
  ELSE IF missing /\ typ \in {"", "int", "float", "bool"} THEN [st |-> "miss"]
  ELSE IF typ \in {"", "int"} /\ allInt THEN [st |-> "ok", col |-> PlainCol(name, "int", [r \in 1..Len(fields) |-> pr[r][2]])]
  ELSE IF typ = "int" THEN [st |-> "err"]
  ELSE IF typ \in {"", "float"} /\ allFloat THEN [st |-> "ok", col |-> PlainCol(name, "float", [r \in 1..Len(fields) |-> floatCell(r)])]
  ELSE IF typ = "float" THEN [st |-> "err"]
  ELSE IF typ \in {"", "bool"} /\ allBool THEN [st |-> "ok", col |-> PlainCol(name, "bool", [r \in 1..Len(fields) |-> pr[r][4]])]
  ELSE IF typ = "bool" THEN [st |-> "err"]
  ELSE IF typ \in {"", "string"} THEN [st |-> "ok", col |-> PlainCol(name, "string", [r \in 1..Len(fields) |-> strCell(r)])]
  ELSE IF typ = "enum" THEN
       LET ec == EnumCol(name, [r \in 1..Len(fields) |-> strCell(r)], IF ei = 0 THEN <<>> ELSE conf.enumvals[ei].vals) IN
       IF ec.ok THEN [st |-> "ok", col |-> ec.col] ELSE [st |-> "err"]
  ELSE [st |-> "err"]                                     \* unknown type name

CsvFrameSem(rows, conf, parse) ==
  LET hasHdr == Len(conf.headers) = 0
      hdr0 == IF hasHdr THEN rows[1] ELSE conf.headers
      body0 == IF hasHdr THEN Tail(rows) ELSE rows
      nc == Len(hdr0)
      body == SelectSeq(body0, LAMBDA row : ~(conf.ignoreempty = 1 /\ IsEmptyLine(row)))
      hdr1 == IF conf.alias # <<>> THEN [i \in 1..nc |-> IF hdr0[i] = <<>> THEN conf.alias ELSE hdr0[i]] ELSE hdr0
      hdr == IF conf.renamedup = 1 THEN RenameDups(hdr1) ELSE hdr1
  IN
  IF hasHdr /\ Len(rows) = 0 THEN ErrFrame                               \* nothing to read a header from
  ELSE IF \E k \in 1..Len(body) : Len(body[k]) # nc THEN ErrFrame         \* wrong number of columns
  ELSE IF HasDup(hdr) THEN ErrFrame
  ELSE IF \E i \in 1..nc : ~NameOK(hdr[i]) THEN ErrFrame
  ELSE LET cols == [i \in 1..nc |-> CsvColumn(hdr[i], [k \in 1..Len(body) |-> body[k][i]], conf, parse)]
           usedEnum(e) == \E i \in 1..nc : hdr[i] = e.name /\
                             (LET t == SelectLastInSeq(conf.types, LAMBDA x : x.name = e.name) IN t # 0 /\ conf.types[t].typ = "enum")
       IN IF \E i \in 1..nc : cols[i].st = "miss" THEN [err |-> FALSE, n |-> 1, cols |-> <<PlainCol(<<>>, "miss", <<<<2>>>>)>>]
          ELSE IF \E i \in 1..nc : cols[i].st = "err" THEN ErrFrame
          ELSE IF \E k \in 1..Len(conf.enumvals) : ~usedEnum(conf.enumvals[k]) THEN ErrFrame
          ELSE [err |-> FALSE, n |-> Len(body), cols |-> [i \in 1..nc |-> cols[i].col]]

\* ReadCSV: either reading of CRLF inside quotes
ReadCsvOK(doc, conf, parse, o) ==
  IF ~WellFormedCsv(doc, conf.delim) THEN "unspec"
  ELSE LET a == CsvFrameSem(Denote(doc, conf.delim, TRUE), conf, parse)
           b == CsvFrameSem(Denote(doc, conf.delim, FALSE), conf, parse)
       IN IF (~a.err /\ \E c \in 1..Len(a.cols) : a.cols[c].typ = "miss") THEN "miss"
          ELSE IF ObsMatches(a, o) THEN "a" ELSE IF ObsMatches(b, o) THEN "b" ELSE "bad"

(***************************************************************************)
(* ToCSV (C13, C09): what was written denotes the frame.                   *)
(* txt[c][r] = <<1>> for null / NaN, <<0>> \o text otherwise, the text     *)
(* being the cell as strconv renders it (logged reference).                *)
(***************************************************************************)
TxtOf(t) == IF t[1] = 1 THEN <<>> ELSE Tail(t)
ToCsvOK(f, header, hascols, cols, bytes, txt) ==
  LET order == IF hascols = 1 THEN [i \in 1..Len(cols) |-> ColIx(f, cols[i])] ELSE Iota(Len(f.cols))
      rows == Denote(bytes, 44, TRUE)
      hdrRows == IF header = 1 THEN << [i \in 1..Len(order) |-> f.cols[order[i]].name] >> ELSE <<>>
      expect == hdrRows \o [r \in 1..f.n |-> [i \in 1..Len(order) |-> TxtOf(txt[order[i]][r])]]
  IN /\ WellFormedCsv(bytes, 44)
     /\ rows = expect

\* what reading the written bytes back must give (C13): null strings return as empty strings, or
\* all empty strings as null with EmptyNull; everything else identical (NaN stays NaN)
\* The round trip is not demanded where the text cannot carry the information back: a null (or empty) cell of
\* an enum column is written as an empty field, which a reader told the declared values - without EmptyNull -
\* must refuse unless "" is one of them (C17 outranks C13 there).
CsvRoundTripApplies(f, conf) ==
  ~(\E c \in 1..Len(f.cols) : \E k \in 1..Len(conf.enumvals) :
       /\ conf.enumvals[k].name = f.cols[c].name /\ Len(conf.enumvals[k].vals) > 0
       /\ conf.emptynull = 0 /\ RankOf(conf.enumvals[k].vals, <<>>) = 0
       /\ \E r \in 1..f.n : IsNull(f.cols[c].cells[r]) \/ f.cols[c].cells[r] = MkCell(<<>>))

NullRule(f, emptynull) ==
  [f EXCEPT !.cols = [c \in 1..Len(f.cols) |->
     IF f.cols[c].typ \in {"string", "enum"}
     THEN [f.cols[c] EXCEPT !.cells = [r \in 1..f.n |->
              IF IsNull(@[r]) \/ @[r] = MkCell(<<>>) THEN (IF emptynull = 1 THEN NullCell ELSE MkCell(<<>>)) ELSE @[r]]]
     ELSE f.cols[c]]]
=============================================================================
