------------------------------ MODULE CsvScan ------------------------------
(***************************************************************************)
(* Mechanism model of internal/fastcsv (C12, C15): the refilling,          *)
(* reallocating, in-place compacting scan buffer, transcribed function by  *)
(* function: bufferedReader.more / reset, fields.next, nextUnquotedField,  *)
(* nextQuotedField (write cursor, quote count, look-ahead pre-copy),       *)
(* Reader.Next (CRLF trim, blank last line).  The scanner is a             *)
(* deterministic macro-step between two calls of more(); the only          *)
(* nondeterminism is how many bytes the io.Reader delivers per call.       *)
(*                                                                         *)
(* Property Faithful: for every well-formed document and every read        *)
(* schedule the rows produced are the RFC 4180 denotation of Csv.tla.      *)
(*                                                                         *)
(* The buffer is modelled with its full capacity (buf, of which the first  *)
(* n bytes are valid) so that reads of stale bytes beyond the valid part   *)
(* are visible.  The CONSTANT switches re-enable the behaviour of the      *)
(* pinned commit for three defects that were found and repaired (D8, D12,  *)
(* D18); with a switch on, model checking must FAIL - the standing test    *)
(* that the model is shaped like the code.                                 *)
(***************************************************************************)
EXTENDS Csv, Json

CONSTANTS MaxLen,      \* documents up to this many bytes
          Alphabet,    \* bytes documents are made of
          Caps,        \* initial buffer capacities (the code: 1024)
          PinD8,       \* TRUE: final empty field after a trailing delimiter at EOF is lost
          PinD12,      \* TRUE: skipping CR in a quoted field skips the look-ahead pre-copy
          PinD18,      \* TRUE: the quoted-field look-ahead asks for more only once
          WithFault,   \* TRUE: the io.Reader fails (non-EOF error) at some byte offset: every offset is explored (C15)
          PinD7,       \* TRUE: io.ReadCSV does not look at the reader's error after its row loop
          Emit         \* TRUE: print one scenario per finished behaviour

DELIM == 44
At(seq, i) == seq[i + 1]                  \* 0-based read
Sub(seq, a, b) == SubSeq(seq, a + 1, b)   \* 0-based half-open [a, b)
Put(seq, i, v) == [seq EXCEPT ![i + 1] = v]

Docs == {d \in UNION {[1..k -> Alphabet] : k \in 0..MaxLen} : WellFormedCsv(d, DELIM)}

VARIABLE s
AddField(st, f) == [st EXCEPT !.fields = Append(st.fields, f)]
MorePCs == {"MoreFN", "MoreU", "MoreQ"}

Step(st) ==
  CASE st.pc = "NextRow" ->                       \* Reader.Next: fields.reset()
         IF st.ferr # "none" THEN [st EXCEPT !.pc = "Done"]
         ELSE LET keep == st.n - st.cursor IN
              [st EXCEPT !.buf = [i \in 1..Len(st.buf) |-> IF i <= keep THEN st.buf[st.cursor + i] ELSE st.buf[i]],
                         !.n = keep, !.cursor = 0, !.fieldStart = 0, !.hitEOL = FALSE, !.fields = <<>>, !.pc = "FieldsNext"]
    [] st.pc = "FieldsNext" ->                    \* fields.next
         IF st.hitEOL THEN [st EXCEPT !.pc = "RowEnd"]
         ELSE IF st.cursor >= st.n THEN [st EXCEPT !.pc = "MoreFN"]
         ELSE IF At(st.buf, st.cursor) = QUOTE
              THEN [st EXCEPT !.cursor = st.cursor + 1, !.qstart = st.cursor + 1, !.wc = st.cursor + 1,
                              !.qc = 0, !.pc = "Q", !.looked = FALSE]
              ELSE [st EXCEPT !.uc = st.cursor, !.pc = "U"]
    [] st.pc = "U" ->                             \* nextUnquotedField
         IF st.uc >= st.n THEN [st EXCEPT !.pc = "MoreU"]
         ELSE LET ch == At(st.buf, st.uc)  c1 == st.uc + 1 IN
              IF ch = DELIM THEN
                [AddField(st, Sub(st.buf, st.fieldStart, c1 - 1)) EXCEPT !.cursor = c1, !.fieldStart = c1, !.pc = "FieldsNext"]
              ELSE IF ch = LF THEN
                [AddField(st, Sub(st.buf, st.fieldStart, c1 - 1)) EXCEPT !.cursor = c1, !.hitEOL = TRUE, !.pc = "FieldsNext"]
              ELSE [st EXCEPT !.uc = c1, !.cursor = c1]
    [] st.pc = "Q" ->                             \* nextQuotedField, one iteration of its loop
         IF st.cursor + 1 >= st.n /\ ~(PinD18 /\ st.looked) THEN [st EXCEPT !.pc = "MoreQ"]
         ELSE LET ch == At(st.buf, st.cursor)  c1 == st.cursor + 1  odd == (st.qc % 2) = 1
                  \* the look-ahead byte; beyond the valid part it is whatever the array holds (stale)
                  nextByte == IF c1 < Len(st.buf) THEN At(st.buf, c1) ELSE 0
                  unlook == [st EXCEPT !.looked = FALSE]
              IN
              IF ch = DELIM /\ odd THEN
                [AddField(unlook, Sub(st.buf, st.qstart, st.wc)) EXCEPT !.cursor = c1, !.fieldStart = c1, !.pc = "FieldsNext"]
              ELSE IF ch = LF /\ odd THEN
                [AddField(unlook, Sub(st.buf, st.qstart, st.wc)) EXCEPT !.cursor = c1, !.fieldStart = c1, !.hitEOL = TRUE, !.pc = "FieldsNext"]
              ELSE IF ch = CR THEN
                IF ~PinD12 /\ st.wc # c1
                THEN [unlook EXCEPT !.cursor = c1, !.buf = Put(st.buf, st.wc, nextByte)]
                ELSE [unlook EXCEPT !.cursor = c1]
              ELSE IF ch = QUOTE /\ ~odd THEN [unlook EXCEPT !.cursor = c1, !.qc = st.qc + 1]
              ELSE LET w1 == st.wc + 1 IN
                   [unlook EXCEPT !.cursor = c1, !.qc = 0, !.wc = w1,
                                  !.buf = IF w1 # c1 THEN Put(st.buf, w1, nextByte) ELSE st.buf]
    [] st.pc = "RowEnd" ->                        \* back in Reader.Next: CRLF trim, blank last line
         LET f == st.fields
             trimmed == IF Len(f) > 0 /\ Len(Last(f)) > 0 /\ Last(Last(f)) = CR
                        THEN [f EXCEPT ![Len(f)] = Front(Last(f))] ELSE f
         IN IF Len(f) = 0 THEN [st EXCEPT !.ferr = IF st.ferr = "none" THEN "eof" ELSE st.ferr, !.pc = "Done"]
            ELSE [st EXCEPT !.rows = Append(st.rows, trimmed), !.pc = "NextRow",
                            !.rowWithErr = st.rowWithErr \/ st.ferr = "io"]   \* io.ReadCSV checks r.Err() in its loop body

RECURSIVE Run(_)
Run(st) == IF st.pc \in MorePCs \cup {"Done"} THEN st ELSE Run(Step(st))

\* more() returned io.EOF
OnEOF(st) ==
  CASE st.pc = "MoreFN" ->
         IF ~PinD8 /\ st.fieldStart > 0
         THEN [AddField(st, <<>>) EXCEPT !.ferr = "eof", !.hitEOL = TRUE, !.pc = "FieldsNext"]
         ELSE [st EXCEPT !.ferr = "eof", !.pc = "RowEnd"]
    [] st.pc = "MoreU" ->
         [AddField(st, Sub(st.buf, st.fieldStart, st.uc)) EXCEPT !.hitEOL = TRUE, !.ferr = "eof", !.pc = "FieldsNext"]
    [] st.pc = "MoreQ" ->
         IF ~PinD8 /\ st.cursor < st.n /\ (st.qc % 2) = 1 /\ At(st.buf, st.cursor) = DELIM
         THEN [AddField(st, Sub(st.buf, st.qstart, st.wc)) EXCEPT !.cursor = st.cursor + 1, !.fieldStart = st.cursor + 1, !.pc = "FieldsNext"]
         ELSE [AddField(st, Sub(st.buf, st.qstart, st.wc)) EXCEPT !.hitEOL = TRUE, !.ferr = "eof",
                                                            !.fieldStart = st.cursor, !.pc = "FieldsNext"]
\* more() returned an error other than io.EOF: no field is produced, the row loop ends
OnIOErr(st) == [st EXCEPT !.ferr = "io", !.fired = TRUE, !.pc = "RowEnd"]
\* more() delivered bytes
OnData(st) == [st EXCEPT !.pc = CASE st.pc = "MoreFN" -> "FieldsNext" [] st.pc = "MoreU" -> "U" [] st.pc = "MoreQ" -> "Q",
                         !.looked = (st.pc = "MoreQ")]

\* bufferedReader.more(): grow to 2*len+1 when full, then one Read of 1..space bytes (or EOF)
More ==
  /\ s.pc \in MorePCs
  /\ LET grown == IF s.n = Len(s.buf) THEN s.buf \o [i \in 1..(s.n + 1) |-> 0] ELSE s.buf
         space == Len(grown) - s.n
         rem == Len(s.doc) - s.pos
         g == [s EXCEPT !.buf = grown]
         room == IF s.fault >= 0 THEN Min2(rem, s.fault - s.pos) ELSE rem
     IN IF s.fault = s.pos THEN s' = Run(OnIOErr(g))
        ELSE IF rem = 0 THEN s' = Run(OnEOF(g))
        ELSE \E k \in 1..Min2(space, room) :
               s' = Run(OnData([g EXCEPT !.buf = [i \in 1..Len(grown) |-> IF i > g.n /\ i <= g.n + k THEN g.doc[g.pos + i - g.n] ELSE grown[i]],
                                          !.n = g.n + k, !.pos = g.pos + k, !.reads = Append(g.reads, k)]))

Init == \E d \in Docs, c \in Caps : \E flt \in (IF WithFault THEN 0..Len(d) ELSE {-1}) :
  s = Run([doc |-> d, pos |-> 0, fault |-> flt, fired |-> FALSE, rowWithErr |-> FALSE, buf |-> [i \in 1..c |-> 0], n |-> 0, cap0 |-> c, reads |-> <<>>,
           cursor |-> 0, fieldStart |-> 0, hitEOL |-> FALSE, ferr |-> "none", pc |-> "NextRow", looked |-> FALSE,
           uc |-> 0, qstart |-> 0, wc |-> 0, qc |-> 0, fields |-> <<>>, rows |-> <<>>])
Next == More
Spec == Init /\ [][Next]_s

Complete(st) == st.rows = Denote(st.doc, DELIM, TRUE) \/ st.rows = Denote(st.doc, DELIM, FALSE)
Faithful == (s.pc = "Done" /\ ~s.fired) => Complete(s)
\* C15, read side: what io.ReadCSV reports - an error seen in the loop body, or (repaired) after the loop
Reported(st) == st.rowWithErr \/ (st.ferr = "io" /\ ~PinD7)
FaultReported == (s.pc = "Done" /\ s.fired) => Reported(s)
ErrorFreeIsComplete == (s.pc = "Done" /\ ~Reported(s)) => Complete(s)

\* scenario emission: document, initial capacity and read schedule of every finished behaviour
EmitScn == (Emit /\ s.pc = "Done" /\ Len(s.reads) >= 1 /\ s.fault < 0) =>
             PrintT(<<"SCN", ToJson([steps |-> << [op |-> "CsvScan", recv |-> -1, doc |-> s.doc, reads |-> s.reads,
                                                   csv |-> [bufcap |-> s.cap0]] >>])>>)
=============================================================================
