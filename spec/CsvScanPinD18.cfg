SPECIFICATION Spec
CONSTANTS
  MaxCard = 255
  MaxLen = 5
  Alphabet = {120, 44, 34, 10, 13}
  Caps = {2, 3}
  PinD8 = FALSE
  PinD12 = FALSE
  PinD18 = TRUE
  WithFault = FALSE
  PinD7 = FALSE
  Emit = FALSE
INVARIANT Faithful
CHECK_DEADLOCK FALSE
