SPECIFICATION Spec
CONSTANTS
  PinD5 = TRUE
  PinD14 = FALSE
  Deep = FALSE
  Emit = FALSE
INVARIANT Refines
CHECK_DEADLOCK FALSE
