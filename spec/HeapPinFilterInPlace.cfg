SPECIFICATION Spec
CONSTANTS
  Depth = 2
  SortInPlace = FALSE
  SetColumnInPlace = FALSE
  FilterInPlace = TRUE
  Emit = FALSE
INVARIANT Persistent
PROPERTY StoresImmutable
CHECK_DEADLOCK FALSE
