SPECIFICATION Spec
CONSTANTS
  DepthP = 3
  PinD16 = TRUE
  StaleSelect = FALSE
  Emit = FALSE
INVARIANTS PosConsistent Refines
CHECK_DEADLOCK FALSE
