SPECIFICATION Spec
CONSTANTS
  MaxRows = 4
  PinNoBackfill = FALSE
  PinBackfillShort = FALSE
  Emit = TRUE
INVARIANTS Refines EmitScn
CHECK_DEADLOCK FALSE
