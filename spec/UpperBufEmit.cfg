SPECIFICATION Spec
CONSTANTS
  MaxRunes = 3
  MaxCalls = 3
  Use = {1, 2, 3, 4, 5, 6, 7}
  BufInit = 10
  UTFMax = 4
  PinGrow = FALSE
  Emit = TRUE
INVARIANTS NoOverrun EmitScn

CHECK_DEADLOCK FALSE
