SPECIFICATION Spec
CONSTANTS
  MaxCard = 255
  MaxPat = 3
  MaxCell = 3
  PinGreedyTrim = FALSE
  PinAnchor = TRUE
  Emit = FALSE
INVARIANTS Refines
CHECK_DEADLOCK FALSE
