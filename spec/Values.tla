------------------------------- MODULE Values -------------------------------
(***************************************************************************)
(* Cells, and the order / equality of every column type, on the encoding   *)
(* shared with the Go harness (harness/enc.go, DESIGN.md 3.2).             *)
(*                                                                         *)
(* A cell is a sequence  <<null, x, k1, k2, ...>> :                        *)
(*   null = 1 : null string / NaN (nothing follows)                        *)
(*   null = 0 : x is an identity discriminator (1 for -0.0) and k.. is an  *)
(*              order- and equality-preserving key, compared               *)
(*              lexicographically with a proper prefix being smaller.      *)
(* Two cells are IDENTICAL iff they are equal as sequences, and EQUAL      *)
(* VALUES (=, group keys, Equals) iff their keys are equal.                *)
(***************************************************************************)
EXTENDS Integers, Sequences, SequencesExt, FiniteSets, FiniteSetsExt, TLC

NullCell == <<1>>
IsNull(c) == c[1] = 1

RECURSIVE LexCmp(_, _, _)
LexCmp(a, b, i) ==
  IF i > Len(a) THEN (IF i > Len(b) THEN 0 ELSE -1)
  ELSE IF i > Len(b) THEN 1
  ELSE IF a[i] < b[i] THEN -1
  ELSE IF a[i] > b[i] THEN 1
  ELSE LexCmp(a, b, i + 1)

\* comparison of two non-null cells by key: -1, 0, 1
KeyCmp(a, b) == LexCmp(a, b, 3)
KeyEq(a, b) == Len(a) = Len(b) /\ \A i \in 3..Len(a) : a[i] = b[i]
KeyOf(c) == SubSeq(c, 3, Len(c))
MkCell(key) == <<0, 0>> \o key

\* a constant handed to New / Apply / Eval is reproduced up to the sign of zero (DESIGN.md 5.5)
Unx(c) == IF IsNull(c) THEN c ELSE [c EXCEPT ![2] = 0]

\* value equality, null equal to null (Equals; group keys under Null(true))
CellEq(a, b) == IF IsNull(a) \/ IsNull(b) THEN IsNull(a) /\ IsNull(b) ELSE KeyEq(a, b)

\* lexicographic comparison of two byte strings (column names): -1, 0, 1
BytesCmp(a, b) == LexCmp(a, b, 1)

(***************************************************************************)
(* Enum columns carry their value table (a sequence of byte strings);      *)
(* the order of an enum column is the rank in that table.                  *)
(***************************************************************************)
RankOf(vals, key) == SelectInSeq(vals, LAMBDA v : v = key)      \* 0 if absent
EnumCmp(vals, a, b) ==
  LET ra == RankOf(vals, KeyOf(a))  rb == RankOf(vals, KeyOf(b))
  IN IF ra < rb THEN -1 ELSE IF ra > rb THEN 1 ELSE 0

\* comparison of two non-null cells of a column of type typ
ValCmp(typ, vals, a, b) == IF typ = "enum" THEN EnumCmp(vals, a, b) ELSE KeyCmp(a, b)

(***************************************************************************)
(* Small integers can be decoded from the int encoding (three chunks of    *)
(* the value with its sign bit flipped); used only for row numbers,        *)
(* counts and bit tests on small operands.                                 *)
(***************************************************************************)
P21 == 2097152
IsSmallInt(c) == ~IsNull(c) /\ Len(c) = 5 /\
                 ((c[3] = P21 /\ c[4] = 0) \/ (c[3] = P21 - 1 /\ c[4] = P21 - 1))
SmallInt(c) == IF c[3] = P21 THEN c[5] ELSE c[5] - P21
IntCell(n) == IF n >= 0 THEN <<0, 0, P21, 0, n>> ELSE <<0, 0, P21 - 1, P21 - 1, P21 + n>>

Min2(a, b) == IF a < b THEN a ELSE b
Max2(a, b) == IF a > b THEN a ELSE b
SeqToSet(s) == {s[i] : i \in 1..Len(s)}
Indices(s) == 1..Len(s)
\* positions 1..n as a sequence
Iota(n) == [i \in 1..n |-> i]
=============================================================================
