-------------------------------- MODULE Ops --------------------------------
(***************************************************************************)
(* What each public operation promises, as operators over abstract frames. *)
(* Deterministic operations are functions  XxxSem(frame, args) -> frame ;  *)
(* operations whose result the properties leave partly open (Sort ties,    *)
(* order of Distinct rows and of groups) are relations  XxxPost(in, out).  *)
(***************************************************************************)
EXTENDS Frame

CONSTANT MaxCard      \* enum cardinality limit (255 in the code; scaled down in MC)

(***************************************************************************)
(* Enum construction (C17): a declared, non-empty table makes the column   *)
(* strict; otherwise the table is derived in order of first occurrence.    *)
(***************************************************************************)
DerivedVals(cells) ==
  FoldLeft(LAMBDA acc, c : IF IsNull(c) \/ RankOf(acc, KeyOf(c)) # 0 THEN acc ELSE Append(acc, KeyOf(c)),
           <<>>, cells)

\* returns [ok, col]
EnumCol(name, cells, declared) ==
  IF Len(declared) > MaxCard THEN [ok |-> FALSE]
  ELSE IF Len(declared) > 0
       THEN IF \A i \in 1..Len(cells) : IsNull(cells[i]) \/ RankOf(declared, KeyOf(cells[i])) # 0
            THEN [ok |-> TRUE, col |-> MkCol(name, "enum", cells, declared, TRUE)]
            ELSE [ok |-> FALSE]
       ELSE LET vals == DerivedVals(cells) IN
            IF Len(vals) > MaxCard THEN [ok |-> FALSE]
            ELSE [ok |-> TRUE, col |-> MkCol(name, "enum", cells, vals, FALSE)]

(***************************************************************************)
(* New (C08).  a = [data, hasorder, order, hasenums, enums]                *)
(*   data  : Seq([name, kind, cells, count]),  kind in                     *)
(*           int float bool string | cint cfloat cbool cstring | bad       *)
(*   enums : Seq([name, vals])                                             *)
(***************************************************************************)
SortedNames(names) ==   \* alphabetical (byte order), the default column order
  SortSeq(names, LAMBDA x, y : BytesCmp(x, y) < 0)

DataCells(d) ==
  IF d.kind \in {"cint", "cfloat", "cbool", "cstring"}
  THEN [i \in 1..d.count |-> Unx(d.cells[1])]
  ELSE d.cells
DataType(d) ==
  CASE d.kind \in {"int", "cint"} -> "int"
    [] d.kind \in {"float", "cfloat"} -> "float"
    [] d.kind \in {"bool", "cbool"} -> "bool"
    [] d.kind \in {"string", "cstring"} -> "string"
    [] OTHER -> "bad"

HasDup(s) == \E i, j \in 1..Len(s) : i < j /\ s[i] = s[j]

NewSem(a) ==
  LET names == [i \in 1..Len(a.data) |-> a.data[i].name]
      dataOf(nm) == a.data[SelectInSeq(a.data, LAMBDA d : d.name = nm)]
      order == IF a.hasorder = 1 /\ Len(a.order) > 0 THEN a.order ELSE SortedNames(names)
      enumIx(nm) == IF a.hasenums = 1 THEN SelectInSeq(a.enums, LAMBDA e : e.name = nm) ELSE 0
      \* an Enums entry is used up only by a string column of that name
      enumUsable(e) == \E i \in 1..Len(a.data) : a.data[i].name = e.name /\ DataType(a.data[i]) = "string"
      mk(nm) == LET d == dataOf(nm)  t == DataType(d)  cells == DataCells(d) IN
                IF t = "bad" THEN [ok |-> FALSE]
                ELSE IF t = "string" /\ enumIx(nm) # 0 THEN EnumCol(nm, cells, a.enums[enumIx(nm)].vals)
                ELSE [ok |-> TRUE, col |-> PlainCol(nm, t, cells)]
      \* a constant outside the declared values repeated zero times: the column holds no undeclared value;
      \* whether construction succeeds is not fixed by C17 (the code rejects the constant itself)
      ghost(nm) == LET d == dataOf(nm) IN
                   /\ d.kind = "cstring" /\ d.count = 0 /\ enumIx(nm) # 0
                   /\ Len(a.enums[enumIx(nm)].vals) > 0
                   /\ ~IsNull(d.cells[1]) /\ RankOf(a.enums[enumIx(nm)].vals, KeyOf(d.cells[1])) = 0
  IN
  IF \E i \in 1..Len(names) : ~NameOK(names[i]) THEN ErrFrame
  ELSE IF Len(order) # Len(names) THEN ErrFrame
  ELSE IF \E i \in 1..Len(order) : ~(\E j \in 1..Len(names) : names[j] = order[i]) THEN ErrFrame
  ELSE IF HasDup(order) THEN Unspec        \* a repeated ColumnOrder entry: no document says
  ELSE IF \E i \in 1..Len(order) : ghost(order[i]) THEN Unspec
  ELSE LET made == [i \in 1..Len(order) |-> mk(order[i])] IN
       IF \E i \in 1..Len(made) : ~made[i].ok THEN ErrFrame
       ELSE IF a.hasenums = 1 /\ \E i \in 1..Len(a.enums) : ~enumUsable(a.enums[i]) THEN ErrFrame
       ELSE LET cols == [i \in 1..Len(made) |-> made[i].col]
                n == IF Len(cols) = 0 THEN 0 ELSE Len(cols[1].cells)
            IN IF \E i \in 1..Len(cols) : Len(cols[i].cells) # n THEN ErrFrame
               ELSE [err |-> FALSE, n |-> n, cols |-> cols]

(***************************************************************************)
(* Projections (C08)                                                       *)
(***************************************************************************)
SelectSem(f, cols) ==
  IF f.err THEN f
  ELSE IF \E i \in 1..Len(cols) : ~HasCol(f, cols[i]) THEN ErrFrame
  ELSE IF Len(cols) = 0 THEN EmptyFrame
  ELSE IF HasDup(cols) THEN Unspec
  ELSE [f EXCEPT !.cols = [i \in 1..Len(cols) |-> ColOf(f, cols[i])]]

DropSem(f, cols) ==
  IF f.err \/ Len(cols) = 0 THEN f
  ELSE LET keep == SelectSeq(f.cols, LAMBDA c : ~(\E i \in 1..Len(cols) : cols[i] = c.name)) IN
       IF Len(keep) = 0 THEN EmptyFrame ELSE [f EXCEPT !.cols = keep]

SliceSem(f, a, b) ==
  IF f.err THEN f
  ELSE IF a < 0 \/ a > b \/ b > f.n THEN ErrFrame
  ELSE TakeRows(f, [j \in 1..(b - a) |-> a + j])

CopySem(f, dst, src) ==
  IF f.err THEN f
  ELSE IF ~HasCol(f, src) THEN ErrFrame
  ELSE IF dst = src THEN f
  ELSE IF ~NameOK(dst) THEN ErrFrame
  ELSE SetColumn(f, [ColOf(f, src) EXCEPT !.name = dst])

(***************************************************************************)
(* Rolling: the configuration is validated (window size positive; position *)
(* center / start / end; not both an interval function and a window size), *)
(* the source column must exist - and then, in this version of the library, *)
(* every column type's Rolling is the identity: the destination receives   *)
(* the source column unchanged.  a = [dst, src, window (0 = default),      *)
(* interval (0/1), pos (bytes, <<>> = default)]                            *)
(***************************************************************************)
RollingCfgBad(a) ==
  \/ a.window < 0
  \/ (a.pos # <<>> /\ a.pos \notin {<<99, 101, 110, 116, 101, 114>>, <<115, 116, 97, 114, 116>>, <<101, 110, 100>>})
  \/ (a.interval = 1 /\ a.window \notin {0, 1})
RollingSem(f, a) ==
  IF f.err THEN f
  ELSE IF RollingCfgBad(a) THEN ErrFrame
  ELSE IF ~HasCol(f, a.src) THEN ErrFrame
  ELSE IF ~NameOK(a.dst) THEN ErrFrame
  ELSE SetColumn(f, [ColOf(f, a.src) EXCEPT !.name = a.dst])
=============================================================================
