SPECIFICATION Spec
CONSTANTS
  DepthP = 3
  PinD16 = FALSE
  StaleSelect = TRUE
  Emit = FALSE
INVARIANTS PosConsistent Refines
CHECK_DEADLOCK FALSE
