SPECIFICATION Spec
CONSTANTS
  MaxRunes = 6
  MaxCalls = 3
  Use = {1, 5}
  BufInit = 10
  UTFMax = 4
  PinGrow = FALSE
  Emit = FALSE
INVARIANTS NoOverrun Correct BufUsable
PROPERTIES BufMonotone
CHECK_DEADLOCK FALSE
