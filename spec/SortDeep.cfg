SPECIFICATION Spec
CONSTANTS
  MaxCard = 255
  MaxN = 4
  Emit = FALSE
INVARIANTS StrictWeakOrder ReverseInverts DecidersAgree SortPostExact SortedExists
CHECK_DEADLOCK FALSE
