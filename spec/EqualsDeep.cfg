SPECIFICATION Spec
CONSTANTS
  MaxCard = 255
  MaxR = 2
  Emit = FALSE
INVARIANTS Reflexive Symmetric Transitive ByValue Rebuilt
CHECK_DEADLOCK FALSE
