SPECIFICATION Spec
CONSTANTS
  MaxRunes = 6
  MaxCalls = 3
  Use = {1, 5}
  BufInit = 10
  UTFMax = 4
  PinGrow = FALSE
  Emit = TRUE
INVARIANTS NoOverrun EmitScn

CHECK_DEADLOCK FALSE
