SPECIFICATION Spec
CONSTANTS
  MaxRows = 8
  PinNoBackfill = FALSE
  PinBackfillShort = FALSE
  Emit = FALSE
INVARIANTS Refines CounterSpent OneSlice FailsOnlyOnNull
CHECK_DEADLOCK FALSE
