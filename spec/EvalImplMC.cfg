SPECIFICATION Spec
CONSTANTS
  PinD5 = FALSE
  PinD14 = FALSE
  Deep = TRUE
  Emit = FALSE
INVARIANT Refines
CHECK_DEADLOCK FALSE
