----------------------------- MODULE ShortDefMC -----------------------------
(***************************************************************************)
(* C16: the definition in ShortestDec.tla, checked against a brute-force   *)
(* definition on a toy binary floating-point format (4-bit significand,    *)
(* exponents -3..2, neighbours from -4 to 4), exhaustively.               *)
(*                                                                         *)
(* Brute force, with no interval arithmetic: a decimal D = d * 10^k         *)
(* (d <= 99, 10 not dividing d, -4 <= k <= 2) ROUNDS TO the float x iff x   *)
(* is the representable value nearest to D, an exact tie going to the even *)
(* significand.  The shortest round-tripping texts of x are the candidates *)
(* rounding to x with the fewest digits and, among those, the ones closest *)
(* to x.  Agrees: Shortest(m, e, low, Render(d, k)) holds for exactly      *)
(* these.  NonVacuous: every float of the format has one.                  *)
(* All quantities are scaled by 16 * 10^4 and stay below 2^31.             *)
(***************************************************************************)
EXTENDS ShortestDec, FiniteSets

MantS == 8..15
TestExp == -3..2
AllExp == -4..4

VARIABLES m, e, stage
vars == <<m, e, stage>>
Init == m = 8 /\ e = 0 /\ stage = 0
\* two steps, so that TLC's workers share the floats (the invariants are evaluated by the worker that
\* generates a state)
Next == \/ stage = 0 /\ stage' = 2 /\ m' \in MantS /\ e' = e
        \/ stage = 2 /\ stage' = 1 /\ m' = m /\ e' \in TestExp
Spec == Init /\ [][Next]_vars

P2(n) == Pow2T[n + 1][1]        \* small powers as plain integers (first limb; < 10^4)
P10(n) == IF n = 0 THEN 1 ELSE IF n = 1 THEN 10 ELSE IF n = 2 THEN 100 ELSE IF n = 3 THEN 1000 ELSE IF n = 4 THEN 10000
          ELSE IF n = 5 THEN 100000 ELSE 1000000
X(mm, ee) == mm * P2(ee + 4) * 10000
D(d, k) == d * P10(k + 4) * 16
Abs(z) == IF z < 0 THEN 0 - z ELSE z

Cands == {<<d, k>> \in (1..99) \X (-4..2) : d % 10 # 0}
RoundsTo(d, k, mm, ee) ==
  \A m2 \in MantS, e2 \in AllExp :
     <<m2, e2>> = <<mm, ee>> \/
     LET a == Abs(D(d, k) - X(mm, ee))  b == Abs(D(d, k) - X(m2, e2)) IN a < b \/ (a = b /\ mm % 2 = 0)
NDig(d) == IF d < 10 THEN 1 ELSE 2
BestOf(mm, ee) ==
  LET s == {c \in Cands : RoundsTo(c[1], c[2], mm, ee)}
      minDig == IF \E c \in s : NDig(c[1]) = 1 THEN 1 ELSE 2
      short == {c \in s : NDig(c[1]) = minDig}
  IN {c \in short : \A c2 \in short : Abs(D(c[1], c[2]) - X(mm, ee)) <= Abs(D(c2[1], c2[2]) - X(mm, ee))}

\* the positional text of d * 10^k
Digs(d) == IF d < 10 THEN <<48 + d>> ELSE <<48 + (d \div 10), 48 + (d % 10)>>
Zeros(n) == [i \in 1..n |-> 48]
Render(d, k) ==
  LET s == Digs(d)  L == Len(s) IN
  IF k >= 0 THEN s \o Zeros(k)
  ELSE IF L > 0 - k THEN SubSeq(s, 1, L + k) \o <<46>> \o SubSeq(s, L + k + 1, L)
  ELSE <<48, 46>> \o Zeros((0 - k) - L) \o s

Agrees == stage = 1 => LET best == BestOf(m, e) IN \A c \in Cands : Shortest(<<m>>, e, m = 8, Render(c[1], c[2])) = (c \in best)
NonVacuous == stage = 1 => BestOf(m, e) # {}
\* sensitivity: with the "lower neighbour is half as far" flag of the power-of-two significand negated, the
\* definition must disagree somewhere
AgreesWrongLow == stage = 1 => LET best == BestOf(m, e) IN \A c \in Cands : Shortest(<<m>>, e, m # 8, Render(c[1], c[2])) = (c \in best)
=============================================================================
