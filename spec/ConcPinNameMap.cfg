SPECIFICATION Spec
CONSTANTS
  Pins = {"NameMap"}
  EmitRels = {"same", "slice", "select", "sorted", "filtered", "added"}
  Emit = FALSE
INVARIANTS NoRace WritesPrivate
CHECK_DEADLOCK FALSE
