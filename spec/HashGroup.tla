----------------------------- MODULE HashGroup -----------------------------
(***************************************************************************)
(* Mechanism model of internal/grouper (C04, C05): the open-addressing     *)
(* hash table with linear probing, growth at load factor > 1/2 by          *)
(* re-inserting the stored 32-bit hashes, used by GroupBy (collecting the  *)
(* positions of every group) and Distinct (first position only).           *)
(*                                                                         *)
(* The hash is a PARAMETER: every assignment of hash values to keys is     *)
(* explored ("every collision pattern"), under the one assumption every    *)
(* per-type Hash must meet: keys that compare equal hash alike             *)
(* (ConsistentHash).  With the assumption dropped the partition breaks -   *)
(* the model-level image of defect D4 (float +0/-0 and NaN payloads).      *)
(*                                                                         *)
(* Keys: 0 = null; 2 and 3 are two identities of one value (+0.0 / -0.0).  *)
(***************************************************************************)
EXTENDS Integers, Sequences, TLC, SequencesExt, FiniteSets, Json

CONSTANTS N,              \* max rows
          Keys,           \* key identities, 0 = null
          H,              \* set of hash values (after truncation to 32 bits)
          MinExp,         \* minimum table size exponent (code: 3)
          ConsistentHash, \* KeyEq keys hash alike
          Emit

Canon(k) == IF k = 3 THEN 2 ELSE k
KeyEq(a, b, nullEq) == IF a = 0 \/ b = 0 THEN (nullEq /\ a = b) ELSE Canon(a) = Canon(b)

Pow2(e) == 2 ^ e
BitLen(x) == IF x = 0 THEN 0 ELSE IF x < 2 THEN 1 ELSE IF x < 4 THEN 2 ELSE IF x < 8 THEN 3 ELSE IF x < 16 THEN 4 ELSE 5
InitExp(n) == LET b == BitLen(n \div 4) IN IF b > MinExp THEN b ELSE MinExp     \* calculateInitialSizeExp

VARIABLES n,        \* number of rows of the frame (known up front: it sizes the table)
          rows,     \* keys of the rows inserted so far (the next row's key is chosen when it is inserted)
          h,        \* hash of every key seen so far (chosen when the key first occurs)
          nullEq, collect, i, entries, groupCount, hist
vars == <<n, rows, h, nullEq, collect, i, entries, groupCount, hist>>
Empty == [occ |-> FALSE, hash |-> 0, first |-> 0, ix |-> <<>>]

Init ==
  /\ n \in 0..N
  /\ rows = <<>>
  /\ h = <<>>                           \* the empty function
  /\ nullEq \in BOOLEAN                 \* groupby.Null(b)
  /\ collect \in BOOLEAN                \* GroupBy (TRUE) / Distinct (FALSE)
  /\ i = 1
  /\ entries = [p \in 0..(Pow2(InitExp(n)) - 1) |-> Empty]
  /\ groupCount = 0
  /\ hist = <<>>                        \* hash used for each inserted row (scenario for replay)

Size(e) == Cardinality(DOMAIN e)

RECURSIVE ProbeR(_, _, _, _, _)
ProbeR(rs, e, pos, hv, r) ==            \* insertEntry: first free slot or slot of an equal key
  IF ~e[pos].occ \/ (e[pos].hash = hv /\ KeyEq(rs[r], rs[e[pos].first], nullEq)) THEN pos
  ELSE ProbeR(rs, e, (pos + 1) % Size(e), hv, r)

RECURSIVE Place(_, _, _)
Place(ne, pos, ent) == IF ~ne[pos].occ THEN [ne EXCEPT ![pos] = ent] ELSE Place(ne, (pos + 1) % Size(ne), ent)
Grow(e) ==                              \* table.grow: re-insert by stored hash into a table twice the size
  LET newSize == 2 * Size(e)
      olds == [p \in 1..Size(e) |-> e[p - 1]]
  IN FoldLeft(LAMBDA ne, ent : IF ent.occ THEN Place(ne, ent.hash % newSize, ent) ELSE ne,
              [p \in 0..(newSize - 1) |-> Empty], olds)

\* the hash of key k: fixed once chosen; keys that compare equal share it when ConsistentHash
HashChoices(k) ==
  IF k \in DOMAIN h THEN {h[k]}
  ELSE IF ConsistentHash /\ \E k2 \in DOMAIN h : Canon(k2) = Canon(k) THEN {h[CHOOSE k2 \in DOMAIN h : Canon(k2) = Canon(k)]}
  ELSE H

Insert ==
  /\ i <= n
  /\ \E k \in Keys :
     LET rs == Append(rows, k) IN
     \E hv \in (IF k # 0 THEN HashChoices(k) ELSE IF nullEq THEN {CHOOSE x \in H : TRUE} ELSE H) :   \* null without Null(true): rand.Uint64()
     /\ rows' = rs
     /\ h' = IF k # 0 /\ k \notin DOMAIN h THEN [x \in DOMAIN h \cup {k} |-> IF x = k THEN hv ELSE h[x]] ELSE h
     /\ LET e0 == IF 2 * groupCount > Size(entries) THEN Grow(entries) ELSE entries
            pos == ProbeR(rs, e0, hv % Size(e0), hv, i)
        IN IF ~e0[pos].occ
           THEN /\ entries' = [e0 EXCEPT ![pos] = [occ |-> TRUE, hash |-> hv, first |-> i, ix |-> <<>>]]
                /\ groupCount' = groupCount + 1
           ELSE /\ entries' = IF collect
                              THEN [e0 EXCEPT ![pos].ix = IF e0[pos].ix = <<>> THEN <<e0[pos].first, i>>
                                                          ELSE Append(e0[pos].ix, i)]
                              ELSE e0
                /\ groupCount' = groupCount
     /\ hist' = Append(hist, hv)
  /\ i' = i + 1
  /\ UNCHANGED <<n, nullEq, collect>>
Next == Insert
Spec == Init /\ [][Next]_vars

Occupied == {p \in DOMAIN entries : entries[p].occ}
GroupOf(p) == IF entries[p].ix = <<>> THEN <<entries[p].first>> ELSE entries[p].ix
Inserted == 1..(i - 1)
ClassOf(r) == {q \in Inserted : q = r \/ KeyEq(rows[r], rows[q], nullEq)}
Done == i = n + 1

NoDuplicateKeys == \A p, q \in Occupied : p # q => ~KeyEq(rows[entries[p].first], rows[entries[q].first], nullEq)
EveryRowHasASlot == \A r \in Inserted : \E p \in Occupied : KeyEq(rows[r], rows[entries[p].first], nullEq) \/ entries[p].first = r
GroupByIsPartition == (Done /\ collect) => {Range(GroupOf(p)) : p \in Occupied} = {ClassOf(r) : r \in Inserted}
GroupsInFrameOrder == \A p \in Occupied : \A a, b \in 1..Len(GroupOf(p)) : a < b => GroupOf(p)[a] < GroupOf(p)[b]
DistinctIsTransversal == Done => \A r \in Inserted : Cardinality({p \in Occupied : entries[p].first \in ClassOf(r)}) = 1
LoadBounded == 2 * groupCount <= Size(entries) + 2

EmitScn == (Emit /\ Done /\ Len(rows) >= 2) =>
  PrintT(<<"SCN", ToJson([steps |-> << [op |-> "HashGroup", recv |-> -1, a |-> 0, opts |-> rows, reads |-> hist,
                                        null |-> nullEq, other |-> IF collect THEN 1 ELSE 0] >>])>>)
=============================================================================
