------------------------------ MODULE BufWrite ------------------------------
(***************************************************************************)
(* Mechanism model of the write side of C15: ToCSV writes one record per   *)
(* row through encoding/csv's Writer, i.e. through a bufio.Writer of fixed *)
(* capacity that buffers, spills to the io.Writer when full, keeps a       *)
(* sticky error, and is flushed once at the end.  The io.Writer accepts    *)
(* Limit bytes in total and fails from then on (every fault position).     *)
(*                                                                         *)
(*   FaultReported  if the io.Writer ever failed, ToCSV returns an error;  *)
(*   NothingLost    if ToCSV returns nil, every byte was accepted.         *)
(* PinD6 re-enables the pinned behaviour (Flush without Error()) and must  *)
(* violate FaultReported.  The real buffer (4096 bytes) is reached by the  *)
(* fault enumeration of check C15 (offsets around 4096 and 8192).          *)
(***************************************************************************)
EXTENDS Integers, Sequences, TLC, FiniteSets

CONSTANTS Cap,        \* capacity of the bufio buffer
          RowLens,    \* possible encoded lengths of a record (incl. its line break)
          MaxRowsB,
          PinD6

VARIABLES rows,      \* lengths of the records still to write
          total,     \* bytes produced so far by the encoder
          limit,     \* the io.Writer accepts this many bytes, then fails
          buffered,  \* bytes sitting in the bufio buffer
          accepted,  \* bytes the io.Writer has accepted
          berr,      \* bufio's sticky error
          fired,     \* the io.Writer has failed at least once
          pc, result
vars == <<rows, total, limit, buffered, accepted, berr, fired, pc, result>>

Init == /\ \E n \in 0..MaxRowsB : rows \in [1..n -> RowLens]
        /\ limit \in 0..(MaxRowsB * 3 + 1)
        /\ total = 0 /\ buffered = 0 /\ accepted = 0 /\ berr = FALSE /\ fired = FALSE
        /\ pc = "loop" /\ result = "none"

\* the io.Writer: accept what fits under the limit
Under(n) == IF accepted + n <= limit THEN [n |-> n, err |-> FALSE] ELSE [n |-> limit - accepted, err |-> TRUE]

\* bufio.Writer.Write of p bytes, as a function of the state: [buffered, accepted, berr, fired]
RECURSIVE BWrite(_, _)
BWrite(st, p) ==
  IF p > Cap - st.buffered /\ ~st.berr THEN
     IF st.buffered = 0 THEN                                     \* large write: straight to the io.Writer
        LET u == IF st.accepted + p <= limit THEN [n |-> p, err |-> FALSE] ELSE [n |-> limit - st.accepted, err |-> TRUE]
        IN BWrite([st EXCEPT !.accepted = @ + u.n, !.berr = u.err, !.fired = @ \/ u.err], p - u.n)
     ELSE LET n == Cap - st.buffered                             \* fill the buffer, then Flush
              full == st.buffered + n
              u == IF st.accepted + full <= limit THEN [n |-> full, err |-> FALSE] ELSE [n |-> limit - st.accepted, err |-> TRUE]
          IN BWrite([st EXCEPT !.buffered = IF u.err THEN full - u.n ELSE 0, !.accepted = @ + u.n, !.berr = u.err, !.fired = @ \/ u.err], p - n)
  ELSE IF st.berr THEN st
  ELSE [st EXCEPT !.buffered = @ + p]

WriteRow ==
  /\ pc = "loop" /\ rows # <<>>
  /\ LET st == BWrite([buffered |-> buffered, accepted |-> accepted, berr |-> berr, fired |-> fired], Head(rows)) IN
     /\ buffered' = st.buffered /\ accepted' = st.accepted /\ berr' = st.berr /\ fired' = st.fired
     /\ total' = total + Head(rows)
     /\ rows' = Tail(rows)
     /\ IF st.berr THEN pc' = "done" /\ result' = "err"          \* csv.Writer.Write returned the sticky error
        ELSE pc' = "loop" /\ result' = result
  /\ UNCHANGED limit
Flush ==
  /\ pc = "loop" /\ rows = <<>>
  /\ LET u == IF berr \/ buffered = 0 THEN [n |-> 0, err |-> berr]
              ELSE IF accepted + buffered <= limit THEN [n |-> buffered, err |-> FALSE] ELSE [n |-> limit - accepted, err |-> TRUE]
     IN /\ accepted' = accepted + u.n /\ buffered' = buffered - u.n
        /\ berr' = u.err /\ fired' = (fired \/ (u.err /\ ~berr))
        /\ result' = IF PinD6 THEN "nil" ELSE IF u.err THEN "err" ELSE "nil"     \* return w.Error()
  /\ pc' = "done"
  /\ UNCHANGED <<rows, total, limit>>
Next == WriteRow \/ Flush
Spec == Init /\ [][Next]_vars

FaultReported == (pc = "done" /\ fired) => result = "err"
NothingLost == (pc = "done" /\ result = "nil") => accepted = total
=============================================================================
