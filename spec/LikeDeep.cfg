SPECIFICATION Spec
CONSTANTS
  MaxCard = 255
  MaxPat = 4
  MaxCell = 4
  PinGreedyTrim = FALSE
  PinAnchor = FALSE
  Emit = FALSE
INVARIANTS Refines TraceOpAgrees LonePercentMatchesAll NoPercentIsEquality IlikeIsLikeOnUpper
CHECK_DEADLOCK FALSE
