-------------------------------- MODULE Rel --------------------------------
(***************************************************************************)
(* Operations whose result is only partly determined: Sort (ties),         *)
(* Distinct (which representative, order), GroupBy (order of groups).      *)
(* Each is a postcondition over the input frame and the observation; the   *)
(* trace adopts the observed result once it satisfies the postcondition.   *)
(*                                                                         *)
(* "Each row exactly once and whole" is decided through a row-number       *)
(* column when the input frame has one that numbers its rows 0..n-1 in     *)
(* frame order (the harness adds it with WithRowNums, itself validated);   *)
(* otherwise by counting equal rows, which is quadratic and used for       *)
(* small frames.  PermEquiv.cfg checks that both deciders agree.           *)
(***************************************************************************)
EXTENDS Clause

\* the observed frame with the hidden state (enum tables) of the input
Adopt(f, o) == [f EXCEPT !.n = o.len,
                         !.cols = [c \in 1..Len(f.cols) |-> [f.cols[c] EXCEPT !.cells = o.cols[c]]]]
SameShape(f, o) == o.len >= 0 /\ o.names = Names(f) /\ o.types = Types(f) /\ Len(o.cols) = Len(f.cols)
                   /\ \A c \in 1..Len(o.cols) : Len(o.cols[c]) = o.len
ORow(o, j) == [c \in 1..Len(o.cols) |-> o.cols[c][j]]

\* ---- row identity through a numbering column
RidIx(f, rid) == IF rid = <<>> THEN 0 ELSE ColIx(f, rid)
RidUsable(f, rid) ==
  LET c == RidIx(f, rid) IN
  c # 0 /\ f.cols[c].typ = "int" /\ \A r \in 1..f.n : f.cols[c].cells[r] = IntCell(r - 1)
\* position in f of observed row j, 0 if it is no row of f
PosOf(f, o, c, j) ==
  LET cell == o.cols[c][j] IN
  IF ~IsSmallInt(cell) THEN 0
  ELSE LET p == SmallInt(cell) + 1 IN
       IF p < 1 \/ p > f.n THEN 0
       ELSE IF \A k \in 1..Len(f.cols) : o.cols[k][j] = f.cols[k].cells[p] THEN p ELSE 0

CountEq(rows, n, row) == Cardinality({r \in 1..n : rows[r] = row})

\* the observed rows are distinct whole rows of f (a sub-multiset); pos: their positions if known
SubRowsFast(f, o, c) ==
  LET P == [j \in 1..o.len |-> PosOf(f, o, c, j)] IN
  /\ \A j \in 1..o.len : P[j] # 0
  /\ Cardinality({P[j] : j \in 1..o.len}) = o.len
SubRowsSlow(f, o) ==
  LET fr == [r \in 1..f.n |-> Row(f, r)]
      orr == [j \in 1..o.len |-> ORow(o, j)]
  IN \A j \in 1..o.len : CountEq(orr, o.len, orr[j]) <= CountEq(fr, f.n, orr[j])
SubRows(f, o, rid) ==
  IF RidUsable(f, rid) THEN SubRowsFast(f, o, RidIx(f, rid)) ELSE SubRowsSlow(f, o)
IsPermRows(f, o, rid) == o.len = f.n /\ SubRows(f, o, rid)

(***************************** Sort (C03) *****************************)
KeyCmp3(col, a, b, rev, nulllast) ==
  LET base == IF IsNull(a) /\ IsNull(b) THEN 0
              ELSE IF IsNull(a) THEN (IF nulllast THEN 1 ELSE -1)
              ELSE IF IsNull(b) THEN (IF nulllast THEN -1 ELSE 1)
              ELSE ValCmp(col.typ, col.vals, a, b)
  IN IF rev THEN 0 - base ELSE base

\* lexicographic comparison of observed rows i, j under the order keys: -1, 0, 1
RECURSIVE RowCmp(_, _, _, _, _, _)
RowCmp(f, o, orders, k, i, j) ==
  IF k > Len(orders) THEN 0
  ELSE LET c == ColIx(f, orders[k].col)
           r == KeyCmp3(f.cols[c], o.cols[c][i], o.cols[c][j], orders[k].rev = 1, orders[k].nulllast = 1)
       IN IF r # 0 THEN r ELSE RowCmp(f, o, orders, k + 1, i, j)

SortPost(f, orders, o, rid) ==
  IF f.err \/ Len(orders) = 0 THEN ObsMatches(f, o)
  ELSE IF \E k \in 1..Len(orders) : ~HasCol(f, orders[k].col) THEN o.len = -1
  ELSE /\ SameShape(f, o)
       /\ IsPermRows(f, o, rid)
       /\ \A j \in 1..(o.len - 1) : RowCmp(f, o, orders, 1, j + 1, j) >= 0

(***************************** keys (C04, C05) *****************************)
KeyCols(f, cols) == IF Len(cols) = 0 THEN Iota(Len(f.cols)) ELSE [i \in 1..Len(cols) |-> ColIx(f, cols[i])]
KeyTupleOf(cellAt(_), kc) == [k \in 1..Len(kc) |-> IF IsNull(cellAt(kc[k])) THEN <<-1>> ELSE KeyOf(cellAt(kc[k]))]
FKey(f, kc, r) == KeyTupleOf(LAMBDA c : f.cols[c].cells[r], kc)
OKey(o, kc, j) == KeyTupleOf(LAMBDA c : o.cols[c][j], kc)
HasNullKey(t) == \E k \in 1..Len(t) : t[k] = <<-1>>

\* number of key classes of f: null-keyed rows are singletons unless nullEq
ClassCount(f, kc, nullEq) ==
  LET keys == [r \in 1..f.n |-> FKey(f, kc, r)] IN
  IF nullEq THEN Cardinality({keys[r] : r \in 1..f.n})
  ELSE Cardinality({keys[r] : r \in {q \in 1..f.n : ~HasNullKey(keys[q])}})
       + Cardinality({r \in 1..f.n : HasNullKey(keys[r])})

(***************************** Distinct (C05) *****************************)
DistinctPost(f, cols, nullEq, o, rid) ==
  IF f.err \/ f.n = 0 THEN ObsMatches(f, o)
  ELSE IF \E k \in 1..Len(cols) : ~HasCol(f, cols[k]) THEN o.len = -1
  ELSE LET kc == KeyCols(f, cols)
           okeys == [j \in 1..o.len |-> OKey(o, kc, j)]
           plain == {j \in 1..o.len : nullEq \/ ~HasNullKey(okeys[j])}
       IN /\ SameShape(f, o)
          /\ SubRows(f, o, rid)                                  \* unmodified, distinct input rows
          /\ Cardinality({okeys[j] : j \in plain}) = Cardinality(plain)   \* one per key
          /\ o.len = ClassCount(f, kc, nullEq)                   \* and every key is represented

(***************************** GroupBy (C04) *****************************)
\* grouper = [err, f, cols, groups] with groups a sequence of ascending row-position sequences
ErrGrouper == [err |-> TRUE, f |-> ErrFrame, cols |-> <<>>, groups |-> <<>>]

\* positions inside f of the rows of every observed group: <<positions of group 1, ...>> (0 = no such row)
\* With a usable numbering column the position is read off the row; otherwise (small frames) each
\* observed row takes the first not yet used position holding an identical row: identical rows have
\* identical keys, so they can only be told apart by position, which no observation shows.
GroupPositionsAll(f, groups, rid) ==
  IF RidUsable(f, rid)
  THEN [g \in 1..Len(groups) |-> [j \in 1..groups[g].len |-> PosOf(f, groups[g], RidIx(f, rid), j)]]
  ELSE FoldLeft(LAMBDA acc, go :
         LET pg == FoldLeft(LAMBDA a2, j :
                      LET row == ORow(go, j)
                          cands == SelectSeq(Iota(f.n), LAMBDA r : r \notin a2.used /\ Row(f, r) = row)
                      IN IF Len(cands) = 0 THEN [used |-> a2.used, p |-> Append(a2.p, 0)]
                         ELSE [used |-> a2.used \cup {cands[1]}, p |-> Append(a2.p, cands[1])],
                    [used |-> acc.used, p |-> <<>>], Iota(Max2(go.len, 0)))
         IN [used |-> pg.used, P |-> Append(acc.P, pg.p)],
       [used |-> {}, P |-> <<>>], groups).P

GroupPost(f, cols, nullEq, gerr, groups, rid) ==
  IF f.err THEN gerr = 1
  ELSE IF \E k \in 1..Len(cols) : ~HasCol(f, cols[k]) THEN gerr = 1
  ELSE IF gerr = 1 THEN FALSE
  ELSE IF f.n = 0 THEN Len(groups) = 0
  ELSE LET kc == [i \in 1..Len(cols) |-> ColIx(f, cols[i])]
           P == GroupPositionsAll(f, groups, rid)
           all == UNION {{P[g][j] : j \in 1..Len(P[g])} : g \in 1..Len(groups)}
           gkey == [g \in 1..Len(groups) |-> FKey(f, kc, P[g][1])]
           plain == {g \in 1..Len(groups) : nullEq \/ ~HasNullKey(gkey[g])}
       IN /\ \A g \in 1..Len(groups) :
               /\ SameShape(f, groups[g]) /\ groups[g].len >= 1
               /\ \A j \in 1..Len(P[g]) : P[g][j] # 0
               /\ \A j \in 1..(Len(P[g]) - 1) : P[g][j] < P[g][j + 1]          \* frame order inside a group
               /\ \A j \in 1..Len(P[g]) : FKey(f, kc, P[g][j]) = gkey[g]       \* equal on all key columns
               /\ (~nullEq /\ HasNullKey(gkey[g]) => Len(P[g]) = 1)
          /\ all = 1..f.n                                                      \* every row somewhere ...
          /\ FoldLeft(LAMBDA s, g : s + Len(P[g]), 0, Iota(Len(groups))) = f.n  \* ... exactly once
          /\ Cardinality({gkey[g] : g \in plain}) = Cardinality(plain)         \* equal keys share a group

\* the grouper the specification keeps after a successful GroupBy
MkGrouper(f, cols, groups, rid) ==
  [err |-> FALSE, f |-> f, cols |-> cols, groups |-> GroupPositionsAll(f, groups, rid)]

QFramesSem(g) == [k \in 1..Len(g.groups) |-> TakeRows(g.f, g.groups[k])]

(***************************** Aggregate (C04) *****************************)
\* agg = [fn = [k, sym, tsym, argt, rest], col, as];  tbls = Seq([sym, argt, rest, rows])
TblOf(tbls, sym) == LET i == SelectInSeq(tbls, LAMBDA t : t.sym = sym) IN IF i = 0 THEN <<>> ELSE tbls[i].rows
\* rows of an aggregation table: <<cells of the group in frame order..., result>>
AggLookup(rows, cells) ==
  LET n == Len(cells)
      i == SelectInSeq(rows, LAMBDA row : Len(row) = n + 1 /\ SubSeq(row, 1, n) = cells)
  IN IF i = 0 THEN <<2>> ELSE rows[i][n + 1]

BuiltinAggs(typ) == CASE typ = "int" -> {"sum", "max", "min"} [] typ = "float" -> {"max", "min", "sum", "avg"}
                      [] typ = "bool" -> {"majority"} [] OTHER -> {}

\* one aggregation column: [st, col]
AggCol(g, a, tbls) ==
  LET src == ColOf(g.f, a.col)
      nm == IF a.as = <<>> THEN a.col ELSE a.as
      groupCells(k) == [j \in 1..Len(g.groups[k]) |-> src.cells[g.groups[k][j]]]
      rt == IF src.typ = "enum" THEN "string" ELSE src.typ
  IN
  IF a.fn.k = "builtin" /\ a.fn.sym = "count"
  THEN [st |-> "ok", col |-> PlainCol(nm, "int", [k \in 1..Len(g.groups) |-> IntCell(Len(g.groups[k]))])]
  ELSE IF a.fn.k = "builtin" THEN
       IF a.fn.sym \notin BuiltinAggs(src.typ) THEN [st |-> "err"]
       ELSE IF a.fn.tsym = "" THEN [st |-> "unspec"]
       ELSE [st |-> "ok", col |-> PlainCol(nm, rt, [k \in 1..Len(g.groups) |-> AggLookup(TblOf(tbls, a.fn.tsym), groupCells(k))])]
  ELSE IF a.fn.k = "agg" THEN
       IF a.fn.argt # FnType(src.typ) \/ a.fn.rest # a.fn.argt THEN [st |-> "err"]
       ELSE [st |-> "ok", col |-> PlainCol(nm, rt, [k \in 1..Len(g.groups) |-> AggLookup(TblOf(tbls, a.fn.sym), groupCells(k))])]
  ELSE [st |-> "err"]

\* <<3>> in a table: the reference itself is not defined on that group (e.g. float sum with NaN)
HasUnspecCell(col) == \E r \in 1..Len(col.cells) : col.cells[r] = <<3>>

RECURSIVE AggFold(_, _, _, _, _)
AggFold(g, aggs, tbls, k, acc) ==     \* acc: [st, cols]
  IF k > Len(aggs) \/ acc.st # "ok" THEN acc
  ELSE LET a == aggs[k] IN
       IF ~HasCol(g.f, a.col) THEN [st |-> "err", cols |-> <<>>]
       ELSE LET nm == IF a.as = <<>> THEN a.col ELSE a.as IN
            IF \E i \in 1..Len(acc.cols) : acc.cols[i].name = nm THEN [st |-> "err", cols |-> <<>>]
            ELSE LET ac == AggCol(g, a, tbls) IN
                 IF ac.st # "ok" THEN [st |-> ac.st, cols |-> <<>>]
                 ELSE IF HasUnspecCell(ac.col) THEN [st |-> "unspec", cols |-> <<>>]
                 ELSE AggFold(g, aggs, tbls, k + 1, [st |-> "ok", cols |-> Append(acc.cols, ac.col)])

AggregateSem(g, aggs, tbls) ==
  IF g.err THEN ErrFrame
  ELSE LET keyCols == [i \in 1..Len(g.cols) |->
                         LET src == ColOf(g.f, g.cols[i]) IN
                         [src EXCEPT !.cells = [k \in 1..Len(g.groups) |-> src.cells[g.groups[k][1]]]]]
           r == AggFold(g, aggs, tbls, 1, [st |-> "ok", cols |-> keyCols])
       IN CASE r.st = "err" -> ErrFrame
            [] r.st = "unspec" -> Unspec
            [] OTHER -> [err |-> FALSE, n |-> Len(g.groups), cols |-> r.cols]
=============================================================================
