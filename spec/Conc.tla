-------------------------------- MODULE Conc --------------------------------
(***************************************************************************)
(* C11 at the level of the design: why any set of operations may run       *)
(* concurrently on a frame and on frames sharing storage with it.          *)
(*                                                                         *)
(* Memory is a set of location classes.  A frame t2 derived from t1 shares *)
(* some of them with t1, depending on how it was derived (Shared(rel)):    *)
(* the column stores always; the row-index array unless an operation built *)
(* a new one (Sort, Filter); the header's column slice - and the unused    *)
(* capacity behind it - only if it is the same frame.  Package-level state *)
(* (caches, pools, scratch buffers) is shared by everything.               *)
(* Every operation kind has a read set and a write set (Reads, Writes),    *)
(* transcribed from the code: all of them READ shared locations and WRITE  *)
(* only memory they allocated themselves ("private").  Goroutines of a     *)
(* batch are started together and do not synchronise, so two accesses to   *)
(* one shared location, one of them a write, are a data race whatever the  *)
(* interleaving: NoRace.                                                   *)
(* Pins re-introduces sharing the way plausible optimisations do: a        *)
(* package-level matcher buffer ("LikeBuf"), default evaluation contexts   *)
(* sharing their function maps ("CtxMaps"), hash tables recycled through a *)
(* pool without synchronisation... ("Pool" - a sync.Pool itself is safe,   *)
(* the table handed back while still in use is not), new columns appended  *)
(* into the parent's header capacity ("Append"), the int column that a     *)
(* comparison with a float column promotes for the duration of the filter  *)
(* written back into the name map that the frame shares with everything    *)
(* derived from it by a new row index ("NameMap").  Each must violate      *)
(* NoRace.                                                                 *)
(* Every (operation, operation, relation) triple is emitted; the harness   *)
(* expands it to a concurrent batch on real frames under the race detector *)
(* and TLC judges every result as a sequential one.                        *)
(***************************************************************************)
EXTENDS Integers, Sequences, FiniteSets, TLC, Json

CONSTANTS Pins, Emit, EmitRels

OpKinds == <<"FilterLike", "FilterInt", "FilterMixed", "FilterEnum", "FilterAnd", "FilterOr", "Sort", "Distinct", "GroupAgg", "ApplyFn", "ApplyUpper", "EvalCtx", "EvalPlain",
             "CopyAdd", "RowNums", "ToCSV", "ToJSON", "String", "Equals", "Slice", "Select", "ViewSlice">>
Rels == <<"same", "slice", "select", "sorted", "filtered", "added">>

\* location classes of frame 1 that frame 2 = rel(frame 1) shares
Shared(rel) ==
  CASE rel = "same"     -> {"store", "index", "hdr", "slack", "names"}
    [] rel = "slice"    -> {"store", "index", "names"}   \* a window of the same index array; withIndex keeps the name map
    [] rel = "select"   -> {"store", "index"}
    [] rel = "added"    -> {"store", "index"}            \* Copy / Apply results: own header
    [] rel = "sorted"   -> {"store", "names"}
    [] rel = "filtered" -> {"store", "names"}
Pkg == {"pkg.likebuf", "pkg.ctxmaps", "pkg.pool"}

Adders == {"ApplyFn", "ApplyUpper", "EvalCtx", "EvalPlain", "CopyAdd", "RowNums"}
Reads(op) ==
  {"store", "index", "hdr", "names"}
  \cup (IF "CtxMaps" \in Pins /\ op \in {"EvalCtx", "EvalPlain"} THEN {"pkg.ctxmaps"} ELSE {})
Writes(op) ==
  (IF "LikeBuf" \in Pins /\ op = "FilterLike" THEN {"pkg.likebuf"} ELSE {})
  \cup (IF "CtxMaps" \in Pins /\ op = "EvalCtx" THEN {"pkg.ctxmaps"} ELSE {})      \* SetFunc on a context of its own
  \cup (IF "Pool" \in Pins /\ op \in {"Distinct", "GroupAgg"} THEN {"pkg.pool"} ELSE {})
  \cup (IF "Append" \in Pins /\ op \in Adders THEN {"slack"} ELSE {})
  \cup (IF "NameMap" \in Pins /\ op = "FilterMixed" THEN {"names"} ELSE {})

VARIABLES a, b, rel, stage
vars == <<a, b, rel, stage>>
Init == a = "Sort" /\ b = "Sort" /\ rel = "same" /\ stage = 0
Next == /\ stage = 0 /\ stage' = 1
        /\ \E i, j \in 1..Len(OpKinds), r \in 1..Len(Rels) : i <= j /\ a' = OpKinds[i] /\ b' = OpKinds[j] /\ rel' = Rels[r]
Spec == Init /\ [][Next]_vars

Visible(r) == Shared(r) \cup Pkg
Conflict(x, y, r) == (Writes(x) \cap (Reads(y) \cup Writes(y)) \cap Visible(r)) # {}
NoRace == stage = 1 => ~Conflict(a, b, rel) /\ ~Conflict(b, a, rel)
\* and nothing an operation may write is ever visible to anyone else
WritesPrivate == \A x \in {OpKinds[i] : i \in 1..Len(OpKinds)} : Pins = {} => Writes(x) = {}

EmitScn == (Emit /\ stage = 1 /\ rel \in EmitRels) =>
  PrintT(<<"SCN", ToJson([steps |-> << [op |-> "ConcModel", recv |-> -1, fl |-> a \o "," \o b \o "," \o rel] >>])>>)
=============================================================================
