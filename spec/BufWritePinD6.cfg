SPECIFICATION Spec
CONSTANTS
  Cap = 3
  RowLens = {1, 2, 3, 4, 7}
  MaxRowsB = 4
  PinD6 = TRUE
INVARIANTS FaultReported NothingLost
CHECK_DEADLOCK FALSE
