SPECIFICATION Spec
CONSTANTS
  Pins = {}
  EmitRels = {"same", "slice", "select", "sorted", "filtered", "added"}
  Emit = TRUE
INVARIANTS NoRace WritesPrivate EmitScn
CHECK_DEADLOCK FALSE
