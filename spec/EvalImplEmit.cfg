SPECIFICATION Spec
CONSTANTS
  PinD5 = FALSE
  PinD14 = FALSE
  Deep = FALSE
  Emit = TRUE
INVARIANTS Refines EmitScn
CHECK_DEADLOCK FALSE
