SPECIFICATION Spec
CONSTANTS
  MaxRows = 4
  PinNoBackfill = FALSE
  PinBackfillShort = TRUE
  Emit = FALSE
INVARIANTS Refines
CHECK_DEADLOCK FALSE
