SPECIFICATION Spec
CONSTANTS
  DepthP = 4
  PinD16 = FALSE
  StaleSelect = FALSE
  Emit = FALSE
INVARIANTS PosConsistent Refines
CHECK_DEADLOCK FALSE
