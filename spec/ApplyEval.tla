----------------------------- MODULE ApplyEval -----------------------------
(***************************************************************************)
(* Apply / FilteredApply / WithRowNums (C06) and Eval (C07).               *)
(*                                                                         *)
(* Functions are uninterpreted symbols: fn = [k, sym, argt, rest, v] with  *)
(* k in const col fn0 fn1 fn2 builtin bad; their graphs arrive as tables   *)
(* tbls = Seq([sym, argt, rest, rows]) with rows <<args..., result>>.      *)
(* The specification thereby decides WHICH function is applied to WHICH    *)
(* cells in WHICH order and where the result lands.                        *)
(***************************************************************************)
EXTENDS Rel

ZeroCell(typ) == CASE typ = "int" -> IntCell(0) [] typ = "float" -> IntCell(0)   \* same chunks as +0.0
                   [] typ = "bool" -> <<0, 0, 0>> [] OTHER -> NullCell

ConstType(v) == CASE v.t = "int" -> "int" [] v.t \in {"float", "nan"} -> "float" [] v.t = "bool" -> "bool"
                  [] v.t \in {"string", "pstring", "nilpstring"} -> "string" [] OTHER -> "none"

Tbl1(tbls, sym, a) == Lookup1(TblOf(tbls, sym), a)
Tbl2(tbls, sym, a, b) == Lookup2(TblOf(tbls, sym), a, b)
Tbl0(tbls, sym) == LET rows == TblOf(tbls, sym) IN IF Len(rows) = 0 THEN <<2>> ELSE rows[1][1]

\* one instruction; active[r] tells whether row r is computed (FilteredApply) - others get the zero value;
\* filtered: 0 = Apply, 1 / 2 = FilteredApply (see FilteredApplySem)
\* returns a frame (ErrFrame / Unspec possible)
InstrSem(f, in, tbls, active, filtered) ==
  LET fn == in.fn  dst == in.dst IN
  IF f.err THEN f
  ELSE IF in.src1 = <<>> THEN
       \* zero-argument: constant, column copy, fn()
       IF fn.k = "const" /\ ConstType(fn.v) # "none" THEN
          IF ~NameOK(dst) THEN ErrFrame
          ELSE IF filtered \in {1, 3} THEN Unspec        \* see DESIGN 7 (D15): constants ignore the filter
          ELSE SetColumn(f, PlainCol(dst, ConstType(fn.v), [r \in 1..f.n |-> IF active[r] THEN Unx(fn.v.c) ELSE ZeroCell(ConstType(fn.v))]))
       ELSE IF fn.k = "col" THEN
          IF filtered \in {1, 3} THEN Unspec
          ELSE IF filtered = 0 THEN CopySem(f, dst, fn.v.s)
          ELSE \* by the letter of C06: the matching rows are copied, the others get the zero value
               IF ~HasCol(f, fn.v.s) THEN ErrFrame
               ELSE IF ~NameOK(dst) THEN ErrFrame
               ELSE LET src == ColOf(f, fn.v.s) IN
                    SetColumn(f, [src EXCEPT !.name = dst,
                                             !.cells = [r \in 1..f.n |-> IF active[r] THEN src.cells[r] ELSE ZeroCell(FnType(src.typ))]])
       ELSE IF fn.k = "fn0" THEN
          IF ~NameOK(dst) THEN ErrFrame
          ELSE SetColumn(f, PlainCol(dst, fn.rest, [r \in 1..f.n |-> IF active[r] THEN Tbl0(tbls, fn.sym) ELSE ZeroCell(fn.rest)]))
       ELSE ErrFrame
  ELSE IF ~HasCol(f, in.src1) THEN ErrFrame
  ELSE LET s1 == ColOf(f, in.src1) IN
  IF s1.typ = "Undefined" THEN Unspec
  ELSE IF in.src2 = <<>> THEN
       IF fn.k = "fn1" THEN
          IF fn.argt # FnType(s1.typ) THEN ErrFrame
          ELSE IF ~NameOK(dst) THEN ErrFrame
          ELSE SetColumn(f, PlainCol(dst, fn.rest,
                  [r \in 1..f.n |-> IF active[r] THEN Tbl1(tbls, fn.sym, s1.cells[r]) ELSE ZeroCell(fn.rest)]))
       ELSE IF fn.k = "builtin" THEN
          IF fn.sym # "ToUpper" \/ s1.typ \notin {"string", "enum"} THEN ErrFrame
          ELSE IF ~NameOK(dst) THEN ErrFrame
          ELSE IF filtered = 2 \/ (filtered # 0 /\ s1.typ = "enum") THEN Unspec   \* enum: the value table is rewritten for all rows (D15 family)
          ELSE LET up(c) == IF IsNull(c) THEN c ELSE Tbl1(tbls, fn.sym, c)
                   \* under a filter the other rows get "the zero/null value": null (filtered = 1) or the
                   \* empty string (filtered = 3) - the judge accepts either, consistently per call
                   zero == IF filtered = 3 THEN MkCell(<<>>) ELSE NullCell IN
               IF s1.typ = "string"
               THEN SetColumn(f, PlainCol(dst, "string", [r \in 1..f.n |-> IF active[r] THEN up(s1.cells[r]) ELSE zero]))
               ELSE \* enum: the value table is rewritten entry by entry, the codes stay (ecolumn toUpper);
                    \* entries may collapse: then the frame is "ambiguous" (AmbFrame) and only
                    \* operations that go by the strings are specified on it (Judge)
                    LET cells == [r \in 1..f.n |-> up(s1.cells[r])]
                        upv == [i \in 1..Len(s1.vals) |-> Tbl1(tbls, fn.sym, MkCell(s1.vals[i]))] IN
                    IF \E i \in 1..Len(upv) : upv[i] = <<2>> THEN Unspec     \* an entry the harness could not know
                    ELSE SetColumn(f, MkCol(dst, "enum", cells, [i \in 1..Len(upv) |-> KeyOf(upv[i])], FALSE))
       ELSE ErrFrame
  ELSE IF ~HasCol(f, in.src2) THEN ErrFrame
  ELSE LET s2 == ColOf(f, in.src2) IN
       IF s2.typ # s1.typ THEN ErrFrame
       ELSE IF fn.k # "fn2" \/ fn.argt # FnType(s1.typ) \/ fn.rest # fn.argt THEN ErrFrame
       ELSE IF ~NameOK(dst) THEN ErrFrame
       ELSE SetColumn(f, PlainCol(dst, fn.rest,
               [r \in 1..f.n |-> IF active[r] THEN Tbl2(tbls, fn.sym, s1.cells[r], s2.cells[r]) ELSE ZeroCell(fn.rest)]))

RECURSIVE InstrFold(_, _, _, _, _, _)
InstrFold(f, instrs, k, tbls, active, filtered) ==
  IF k > Len(instrs) \/ IsUnspec(f) THEN f
  ELSE InstrFold(InstrSem(f, instrs[k], tbls, active, filtered), instrs, k + 1, tbls, active, filtered)

\* how often the library may call the functions handed in by one Apply: once per row for every
\* instruction with a function that is executed, nothing after the first failing instruction (C06, C10).
\* The failing instruction itself may or may not have run its function before the failure was noticed
\* (an invalid destination name is only detected when the computed column is added): <<lo, hi>>.
RECURSIVE ApplyCalls(_, _, _, _)
ApplyCalls(f, instrs, k, tbls) ==
  IF k > Len(instrs) \/ f.err \/ IsUnspec(f) THEN <<0, 0>>
  ELSE LET g == InstrSem(f, instrs[k], tbls, [r \in 1..Max2(f.n, 0) |-> TRUE], 0)
           here == IF instrs[k].fn.k \in {"fn0", "fn1", "fn2"} THEN f.n ELSE 0
           rest == ApplyCalls(g, instrs, k + 1, tbls)
       IN IF g.err \/ IsUnspec(g) THEN <<0, here>> ELSE <<here + rest[1], here + rest[2]>>

ApplySem(f, instrs, tbls) == InstrFold(f, instrs, 1, tbls, [r \in 1..Max2(f.n, 0) |-> TRUE], 0)

\* mode 3: as mode 1 with the empty string instead of null as the zero value of a built-in string result;
\* mode 1: constants, column copies and built-ins on enums under a filter are unspecified (finding D15 kept out of the
\* way of everything else); mode 2: judged by the letter of C06 (the witness scenarios of D15)
FilteredApplySem(f, clause, instrs, tbls, mode) ==
  IF f.err THEN f
  ELSE LET ct == ClauseTruth(f, clause) IN
       CASE ct.st = "err" -> ErrFrame
         [] ct.st = "unspec" -> Unspec
         [] ct.st = "miss" -> [err |-> FALSE, n |-> 1, cols |-> <<PlainCol(<<>>, "miss", <<<<2>>>>)>>]
         [] OTHER -> InstrFold(f, instrs, 1, tbls, ct.t, mode)

WithRowNumsSem(f, dst) ==
  IF f.err THEN f
  ELSE IF ~NameOK(dst) THEN ErrFrame
  ELSE SetColumn(f, PlainCol(dst, "int", [r \in 1..f.n |-> IntCell(r - 1)]))

(***************************** Eval (C07) *****************************)
\* default context, as documented by eval.NewDefaultCtx: <<operand type, arity, name, symbol, result type>>
DefaultCtx == <<
  <<"float", 1, "abs", "absF", "float">>, <<"float", 1, "str", "StrF", "string">>, <<"float", 1, "int", "IntF", "int">>,
  <<"float", 2, "+", "PlusF", "float">>, <<"float", 2, "-", "MinusF", "float">>, <<"float", 2, "*", "MulF", "float">>,
  <<"float", 2, "/", "DivF", "float">>,
  <<"int", 1, "abs", "AbsI", "int">>, <<"int", 1, "str", "StrI", "string">>, <<"int", 1, "bool", "BoolI", "bool">>,
  <<"int", 1, "float", "FloatI", "float">>,
  <<"int", 2, "+", "PlusI", "int">>, <<"int", 2, "-", "MinusI", "int">>, <<"int", 2, "*", "MulI", "int">>,
  <<"int", 2, "/", "DivI", "int">>,
  <<"bool", 1, "!", "NotB", "bool">>, <<"bool", 1, "str", "StrB", "string">>, <<"bool", 1, "int", "IntB", "int">>,
  <<"bool", 2, "&", "AndB", "bool">>, <<"bool", 2, "|", "OrB", "bool">>, <<"bool", 2, "!=", "XorB", "bool">>,
  <<"bool", 2, "nand", "NandB", "bool">>,
  <<"string", 1, "upper", "UpperS", "string">>, <<"string", 1, "lower", "LowerS", "string">>,
  <<"string", 1, "str", "StrS", "string">>, <<"string", 1, "len", "LenS", "int">>,
  <<"string", 2, "+", "ConcatS", "string">> >>

\* user entries [name, sym, argt, arity, rest, err] registered later win
CtxLookup(ctx, typ, arity, name) ==
  LET u == SelectLastInSeq(ctx, LAMBDA c : c.err = 0 /\ c.argt = typ /\ c.arity = arity /\ c.name = name)
      d == SelectInSeq(DefaultCtx, LAMBDA c : c[1] = typ /\ c[2] = arity /\ c[3] = name)
  IN IF u # 0 THEN [ok |-> TRUE, sym |-> ctx[u].sym, rest |-> ctx[u].rest]
     ELSE IF d # 0 THEN [ok |-> TRUE, sym |-> DefaultCtx[d][4], rest |-> DefaultCtx[d][5]]
     ELSE [ok |-> FALSE]

\* value of an expression: [st, typ, cells], st in ok err unspec
EV(st) == [st |-> st, typ |-> "", cells |-> <<>>]
RECURSIVE ExprVal(_, _, _, _)
BinStep(f, ctx, tbls, op, acc, rhs) ==
  IF acc.st # "ok" THEN acc ELSE IF rhs.st # "ok" THEN rhs
  ELSE LET fnl == CtxLookup(ctx, FnType(acc.typ), 2, op) IN
       IF ~fnl.ok \/ acc.typ # rhs.typ THEN EV("err")
       ELSE [st |-> "ok", typ |-> fnl.rest,
             cells |-> [r \in 1..f.n |-> Tbl2(tbls, fnl.sym, acc.cells[r], rhs.cells[r])]]
ExprVal(f, e, ctx, tbls) ==
  CASE e.k = "col" -> IF HasCol(f, e.name) THEN [st |-> "ok", typ |-> ColOf(f, e.name).typ, cells |-> ColOf(f, e.name).cells]
                      ELSE EV("err")
    [] e.k = "const" -> IF ConstType(e.v) \in {"none"} /\ e.v.t # "nil" THEN EV("err")
                        ELSE [st |-> "ok", typ |-> IF e.v.t = "nil" THEN "string" ELSE ConstType(e.v),
                              cells |-> [r \in 1..f.n |-> Unx(e.v.c)]]
    [] e.k = "val" -> ExprVal(f, e.args[1], ctx, tbls)
    [] e.k = "call" ->
         IF Len(e.args) = 0 THEN EV("err")
         ELSE LET a1 == ExprVal(f, e.args[1], ctx, tbls) IN
              IF Len(e.args) = 1 THEN
                 IF a1.st # "ok" THEN a1
                 ELSE LET fnl == CtxLookup(ctx, FnType(a1.typ), 1, e.op) IN
                      IF ~fnl.ok THEN EV("err")
                      ELSE [st |-> "ok", typ |-> fnl.rest, cells |-> [r \in 1..f.n |-> Tbl1(tbls, fnl.sym, a1.cells[r])]]
              ELSE FoldLeft(LAMBDA acc, k : BinStep(f, ctx, tbls, e.op, acc, ExprVal(f, e.args[k], ctx, tbls)),
                            a1, [k \in 1..(Len(e.args) - 1) |-> k + 1])
    [] OTHER -> EV("err")

EvalSem(f, dst, e, ctx, tbls) ==
  IF f.err THEN f
  ELSE LET v == ExprVal(f, e, ctx, tbls) IN
       IF v.st = "err" THEN ErrFrame
       ELSE IF v.st = "unspec" THEN Unspec
       ELSE IF ~NameOK(dst) THEN ErrFrame
       ELSE IF e.k \in {"col", "val"} /\ v.typ = "enum" THEN Unspec
       ELSE SetColumn(f, PlainCol(dst, IF v.typ = "enum" THEN "string" ELSE v.typ, v.cells))
=============================================================================
