------------------------------ MODULE EqualsMC ------------------------------
(***************************************************************************)
(* C09, exhaustively at small scale: Equals over ALL pairs of small frames.*)
(*  - EqualsSem (Frame.tla) is an equivalence: Reflexive, Symmetric,       *)
(*    Transitive (the third frame quantified inside the invariant);        *)
(*  - it is decided by names in order, types, and cell VALUES: enum columns*)
(*    with different value tables but the same strings are equal, a string *)
(*    column and an enum column are not, NaN equals NaN, and both zeros are*)
(*    equal (ByValue);                                                     *)
(*  - a frame rebuilt from the observed values is equal to it (Rebuilt).   *)
(* Every pair is emitted as a scenario - New, New, Equals both ways,       *)
(* Equals with itself, Rebuild and Equals - and executed on the real code. *)
(* Frames: one column A or B of type int / float / string / enum declared  *)
(* (a, b) / enum declared (b, a) / enum derived from the data, or the two-column frames (A, B), (B, A)  *)
(* with an int or string column next to an int column; rows <= MaxR.       *)
(***************************************************************************)
EXTENDS IOSem, Json

CONSTANTS MaxR, Emit

A == <<65>>  B == <<66>>
TypeTags == {"int", "float", "string", "enumAB", "enumBA", "enumD"}
CellsOf(t) == CASE t = "int" -> {IntCell(0), IntCell(1)}
                [] t = "float" -> {NullCell, IntCell(0), <<0, 1, 2097152, 0, 0>>, <<0, 0, 3145728, 0, 0>>}   \* NaN, 0.0, -0.0, 1.0
                [] OTHER -> {NullCell, MkCell(<<97>>), MkCell(<<98>>)}
ColOf1(nm, t, cells) ==
  CASE t = "enumAB" -> MkCol(nm, "enum", cells, << <<97>>, <<98>> >>, TRUE)
    [] t = "enumBA" -> MkCol(nm, "enum", cells, << <<98>>, <<97>> >>, TRUE)
    [] t = "enumD" -> MkCol(nm, "enum", cells, DerivedVals(cells), FALSE)     \* value table derived from the data: only the values present
    [] OTHER -> PlainCol(nm, t, cells)

Single == {<<nm, t>> : nm \in {A, B}, t \in TypeTags}
Double == {<<t, swap>> : t \in {"int", "string"}, swap \in {FALSE, TRUE}}

VARIABLES fa, fb, ta, tb, stage      \* the two frames and their type tags (for emission)
vars == <<fa, fb, ta, tb, stage>>

\* a frame description: [cols : Seq([name, tag, cells])]
Descs ==
  UNION {{ << [name |-> s[1], tag |-> s[2], cells |-> c] >> : c \in [1..n -> CellsOf(s[2])] } : s \in Single, n \in 0..MaxR}
  \cup UNION {{ IF d[2] THEN << [name |-> B, tag |-> "int", cells |-> c2], [name |-> A, tag |-> d[1], cells |-> c1] >>
                       ELSE << [name |-> A, tag |-> d[1], cells |-> c1], [name |-> B, tag |-> "int", cells |-> c2] >>
               : c1 \in [1..n -> CellsOf(d[1])], c2 \in [1..n -> CellsOf("int")] } : d \in Double, n \in 0..(IF MaxR > 1 THEN 1 ELSE MaxR)}

FrameOf(d) == [err |-> FALSE, n |-> Len(d[1].cells),
               cols |-> [k \in 1..Len(d) |-> ColOf1(d[k].name, d[k].tag, d[k].cells)]]

Init == fa = <<>> /\ fb = <<>> /\ ta = <<>> /\ tb = <<>> /\ stage = 0
Next == /\ stage = 0 /\ stage' = 1
        /\ \E da \in Descs, db \in Descs : fa' = FrameOf(da) /\ fb' = FrameOf(db) /\ ta' = da /\ tb' = db
Spec == Init /\ [][Next]_vars

Reflexive == stage = 1 => EqualsSem(fa, fa)
Symmetric == stage = 1 => (EqualsSem(fa, fb) = EqualsSem(fb, fa))
Transitive == stage = 1 => \A dc \in Descs : LET fc == FrameOf(dc) IN EqualsSem(fa, fb) /\ EqualsSem(fb, fc) => EqualsSem(fa, fc)
\* equality goes by the described VALUES: same names in order, same exposed types, equal keys / both null
ValEq(x, y) == (IsNull(x) /\ IsNull(y)) \/ (~IsNull(x) /\ ~IsNull(y) /\ KeyOf(x) = KeyOf(y))
Exposed(t) == IF t \in {"enumAB", "enumBA", "enumD"} THEN "enum" ELSE t
ByValue == stage = 1 =>
  (EqualsSem(fa, fb) =
     (/\ Len(ta) = Len(tb)
      /\ \A k \in 1..Len(ta) : /\ ta[k].name = tb[k].name /\ Exposed(ta[k].tag) = Exposed(tb[k].tag)
                               /\ Len(ta[k].cells) = Len(tb[k].cells)
                               /\ \A r \in 1..Len(ta[k].cells) : ValEq(ta[k].cells[r], tb[k].cells[r])))
Rebuilt == stage = 1 => EqualsSem(fa, RebuildSem(fa)) /\ EqualsSem(RebuildSem(fa), fa)

(************************* scenario emission *************************)
FloatTxt(c) == IF IsNull(c) THEN "NaN" ELSE IF c = IntCell(0) THEN "0" ELSE IF c[2] = 1 THEN "-0" ELSE "1"
DataOf(col) ==
  CASE col.tag = "int" -> [name |-> col.name, kind |-> "int", ints |-> [r \in 1..Len(col.cells) |-> SmallInt(col.cells[r])]]
    [] col.tag = "float" -> [name |-> col.name, kind |-> "float", floats |-> [r \in 1..Len(col.cells) |-> FloatTxt(col.cells[r])]]
    [] OTHER -> [name |-> col.name, kind |-> "string", strs |-> [r \in 1..Len(col.cells) |-> IF IsNull(col.cells[r]) THEN <<0>> ELSE KeyOf(col.cells[r])]]
EnumsOf(d) == LET e == SelectSeq(d, LAMBDA c : c.tag \in {"enumAB", "enumBA", "enumD"}) IN
              [k \in 1..Len(e) |-> [name |-> e[k].name, vals |-> IF e[k].tag = "enumAB" THEN << <<97>>, <<98>> >>
                                                                  ELSE IF e[k].tag = "enumBA" THEN << <<98>>, <<97>> >> ELSE <<>>]]
NewStep(d) == [op |-> "New", recv |-> -1, hasorder |-> TRUE, colorder |-> [k \in 1..Len(d) |-> d[k].name],
               hasenums |-> Len(EnumsOf(d)) > 0, enums |-> EnumsOf(d), data |-> [k \in 1..Len(d) |-> DataOf(d[k])]]
EmitScn == (Emit /\ stage = 1) =>
  PrintT(<<"SCN", ToJson([steps |-> <<
     NewStep(ta), NewStep(tb),
     [op |-> "Equals", recv |-> 0, other |-> 1], [op |-> "Equals", recv |-> 1, other |-> 0],
     [op |-> "Equals", recv |-> 0, other |-> 0],
     [op |-> "Rebuild", recv |-> 0], [op |-> "Equals", recv |-> 0, other |-> 2], [op |-> "Equals", recv |-> 2, other |-> 1] >>])>>)
=============================================================================
