SPECIFICATION Spec
CONSTANTS
  Depth = 2
  SortInPlace = TRUE
  SetColumnInPlace = FALSE
  FilterInPlace = FALSE
  Emit = FALSE
INVARIANT Persistent
PROPERTY StoresImmutable
CHECK_DEADLOCK FALSE
