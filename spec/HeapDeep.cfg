SPECIFICATION Spec
CONSTANTS
  Depth = 5
  SortInPlace = FALSE
  SetColumnInPlace = FALSE
  FilterInPlace = FALSE
  Emit = FALSE
INVARIANT Persistent
PROPERTY StoresImmutable
CHECK_DEADLOCK FALSE
