SPECIFICATION Spec
CONSTANTS
  MaxCard = 255
  DepthE = 3
  Emit = FALSE
INVARIANTS Sticky GrouperPasses
PROPERTY ErrIffInvalid
CHECK_DEADLOCK FALSE
