------------------------------- MODULE Judge -------------------------------
(***************************************************************************)
(* One trace event judged against the specification.                       *)
(* Judge(e, Fr, Gr) = [ok, miss, unspec, newf, newd, newg, newgd] where    *)
(*   ok     : the logged observation is what the specification allows      *)
(*   miss   : a function table lacked an entry (harness error, no verdict) *)
(*   unspec : the call's outcome is not fixed by any property              *)
(*   newf.. : family members born in this step (the specification's own    *)
(*            result), with the digests of their observations              *)
(***************************************************************************)
EXTENDS IOSem

Res(ok, miss, unspec, newf, newd, newg, newgd) ==
  [ok |-> ok, miss |-> miss, unspec |-> unspec, newf |-> newf, newd |-> newd, newg |-> newg, newgd |-> newgd, newvd |-> <<>>]

HasMiss(f) == \E c \in 1..Len(f.cols) : \E r \in 1..Len(f.cols[c].cells) : f.cols[c].cells[r] = <<2>>

\* a deterministic frame-valued operation: compare, then keep the specification's own result
Det(e, exp) ==
  IF IsUnspec(exp) THEN Res(TRUE, FALSE, TRUE, <<ErrFrame>>, <<e.dig>>, <<>>, <<>>)
  ELSE IF ~exp.err /\ HasMiss(exp) THEN Res(TRUE, TRUE, FALSE, <<ErrFrame>>, <<e.dig>>, <<>>, <<>>)
  ELSE Res(ObsMatches(exp, e.obs), FALSE, FALSE, <<exp>>, <<e.dig>>, <<>>, <<>>)

\* a relational frame-valued operation: check the postcondition, then adopt the observation
Rel(e, f, post) ==
  IF ~post THEN Res(FALSE, FALSE, FALSE, <<ErrFrame>>, <<e.dig>>, <<>>, <<>>)
  ELSE Res(TRUE, FALSE, FALSE, <<IF e.obs.len = -1 THEN ErrFrame ELSE Adopt(f, e.obs)>>, <<e.dig>>, <<>>, <<>>)

\* a call that yields no family member (observers)
Plain(ok) == Res(ok, FALSE, FALSE, <<>>, <<>>, <<>>, <<>>)
PlainU(st, ok) == IF st = "unspec" THEN Res(TRUE, FALSE, TRUE, <<>>, <<>>, <<>>, <<>>)
                  ELSE IF st = "miss" THEN Res(TRUE, TRUE, FALSE, <<>>, <<>>, <<>>, <<>>) ELSE Plain(ok)

Rid(e) == IF "rid" \in DOMAIN e.a THEN e.a.rid ELSE <<>>
\* deciding "whole rows, each once" without a numbering column is quadratic: a large frame without one
\* is a harness error (no verdict), not hours of computation
TooBig(f, rid) == ~f.err /\ f.n > 300 /\ ~RidUsable(f, rid)
TooBigRes(e) == Res(TRUE, TRUE, FALSE, <<ErrFrame>>, <<e.dig>>, <<>>, <<>>)

\* Aggregate: the order of the result rows is the grouper's group order or any other
BagEqRows(exp, o) ==
  /\ SameShape(exp, o) /\ o.len = exp.n
  /\ LET er == [r \in 1..exp.n |-> Row(exp, r)]  orr == [j \in 1..o.len |-> ORow(o, j)]
     IN \A j \in 1..o.len : CountEq(orr, o.len, orr[j]) = CountEq(er, exp.n, orr[j])

\* C10: once Err is set no user callback runs (the harness counts calls of every function it hands in)
GrouperOps == {"Aggregate", "QFrames"}
CallsOK(e, Fr, Gr) ==
  IF e.recv < 0 \/ e.conc > 0 THEN TRUE     \* the counter is process-wide: calls of a concurrent batch cannot be attributed
  ELSE IF e.op = "Apply" /\ ~Fr[e.recv + 1].err THEN
       LET exp == ApplySem(Fr[e.recv + 1], e.a.instrs, e.a.tbls)
           rng == ApplyCalls(Fr[e.recv + 1], e.a.instrs, 1, e.a.tbls) IN
       IsUnspec(exp) \/ e.calls \in {rng[1], rng[2]}
  ELSE IF e.op \in GrouperOps THEN (Gr[e.recv + 1].err => e.calls = 0)
  ELSE (Fr[e.recv + 1].err => e.calls = 0)

\* An enum column whose value table holds the same string twice (built-in ToUpper on "a", "A"): two
\* codes mean the same string. Operations that go by the code (comparisons, sorting, grouping, hashing)
\* are not specified on such a frame; those that go by the strings are (C09: Equals, views, writers).
AmbFrame(f) == ~f.err /\ ~IsUnspec(f) /\ \E c \in 1..Len(f.cols) : f.cols[c].typ = "enum" /\ HasDup(f.cols[c].vals)
AmbSafeOps == {"New", "Select", "Drop", "Slice", "Copy", "Rolling", "WithRowNums", "Rebuild", "Apply", "Equals", "SliceObs",
               "Scribble", "View", "TypedView", "ToCSV", "ToJSON", "String", "ReadCSV", "ReadJSON", "CsvScan", "ReadSQL", "QFrames", "Aggregate"}
AmbRes(e) ==
  IF e.op = "GroupBy" THEN Res(TRUE, FALSE, TRUE, <<>>, <<>>, <<ErrGrouper>>, <<e.gdig>>)
  ELSE IF e.op \in {"Filter", "Sort", "Distinct", "FilteredApply", "Eval"} THEN Res(TRUE, FALSE, TRUE, <<ErrFrame>>, <<e.dig>>, <<>>, <<>>)
  ELSE PlainU("unspec", TRUE)

JudgeOp1(e, Fr, Gr) ==
  LET R == Fr[e.recv + 1] IN
  CASE e.op = "New"    -> Det(e, NewSem(e.a))
    [] e.op = "Select" -> Det(e, SelectSem(R, e.a.cols))
    [] e.op = "Drop"   -> Det(e, DropSem(R, e.a.cols))
    [] e.op = "Slice"  -> Det(e, SliceSem(R, e.a.a, e.a.b))
    [] e.op = "Copy"   -> Det(e, CopySem(R, e.a.dst, e.a.src))
    [] e.op = "Rolling" -> Det(e, RollingSem(R, e.a))
    [] e.op = "Filter" -> Det(e, FilterSem(R, e.a.clause))
    [] e.op = "Sort"   -> IF TooBig(R, Rid(e)) THEN TooBigRes(e) ELSE Rel(e, R, SortPost(R, e.a.orders, e.obs, Rid(e)))
    [] e.op = "Distinct" -> IF TooBig(R, Rid(e)) THEN TooBigRes(e)
                            ELSE Rel(e, R, DistinctPost(R, e.a.cols, e.a.null = 1, e.obs, Rid(e)))
    [] e.op = "Apply"  -> Det(e, ApplySem(R, e.a.instrs, e.a.tbls))
    [] e.op = "FilteredApply" ->
         LET letter == "ambjudge" \in DOMAIN e /\ e.ambjudge = 1
             a == FilteredApplySem(R, e.a.clause, e.a.instrs, e.a.tbls, IF letter THEN 2 ELSE 1)
         IN IF letter \/ IsUnspec(a) \/ a.err \/ HasMiss(a) \/ ObsMatches(a, e.obs) THEN Det(e, a)
            ELSE Det(e, FilteredApplySem(R, e.a.clause, e.a.instrs, e.a.tbls, 3))
    [] e.op = "WithRowNums" -> Det(e, WithRowNumsSem(R, e.a.dst))
    [] e.op = "Eval"   -> Det(e, EvalSem(R, e.a.dst, e.a.expr, e.a.ctx, e.a.tbls))
    [] e.op = "Rebuild" -> Det(e, RebuildSem(R))
    [] e.op = "GroupBy" ->
         IF TooBig(R, Rid(e)) THEN [TooBigRes(e) EXCEPT !.newf = <<>>, !.newd = <<>>, !.newg = <<ErrGrouper>>, !.newgd = <<e.gdig>>]
         ELSE IF GroupPost(R, e.a.cols, e.a.null = 1, e.gerr, e.groups, Rid(e))
         THEN Res(TRUE, FALSE, FALSE, <<>>, <<>>,
                  <<IF e.gerr = 1 THEN ErrGrouper ELSE MkGrouper(R, e.a.cols, e.groups, Rid(e))>>, <<e.gdig>>)
         ELSE Res(FALSE, FALSE, FALSE, <<>>, <<>>, <<ErrGrouper>>, <<e.gdig>>)
    [] e.op = "QFrames" ->
         LET g == Gr[e.recv + 1] IN
         IF g.err THEN Plain(e.gerr = 1 /\ Len(e.outs) = 0)
         ELSE LET exp == QFramesSem(g) IN
              Res(e.gerr = 0 /\ Len(e.obss) = Len(exp) /\ \A k \in 1..Len(exp) : ObsMatches(exp[k], e.obss[k]),
                  FALSE, FALSE, exp, [k \in 1..Len(exp) |-> e.digs[k]], <<>>, <<>>)
    [] e.op = "Aggregate" ->
         LET exp == AggregateSem(Gr[e.recv + 1], e.a.aggs, e.a.tbls) IN
         IF IsUnspec(exp) \/ exp.err \/ HasMiss(exp) \/ ObsMatches(exp, e.obs) THEN Det(e, exp)
         ELSE Rel(e, exp, BagEqRows(exp, e.obs))
    [] e.op = "Equals" ->
         LET other == Fr[e.a.other + 1] IN
         IF R.err \/ other.err THEN PlainU("unspec", TRUE)     \* Equals does not consult Err
         ELSE IF "must" \in DOMAIN e /\ e.must = 1
              \* C09: a frame rebuilt from the observed values yields Equal results under every operation whose
              \* result is a function of the observable values (Filter, Sort, Select, Apply): the scenario applied
              \* one such operation to both and the results must be Equal - also where the specification leaves
              \* the order of ties to the implementation
              THEN Plain(e.res = 1)
         ELSE Plain((e.res = 1) = EqualsSem(R, other))
    [] e.op = "SliceObs" -> Plain(TRUE)
    [] e.op = "Scribble" -> Plain(TRUE)      \* overwriting what View.Slice() returned; persistence is judged by Persist
    [] e.op = "TypedView" ->
         \* IntView / FloatView / ... : an error exactly when the column is missing or of another type;
         \* otherwise a view of the frame's length
         IF R.err THEN PlainU("unspec", TRUE)
         ELSE LET ok == HasCol(R, e.a.col) /\ ColOf(R, e.a.col).typ = e.a.typ IN
              Plain((e.res = 0) = ok /\ (ok => e.vlen = R.n))
    [] e.op = "View" ->
         \* a typed view shows exactly the column's cells in frame order (C09); it joins the family (C01)
         \* (the harness registers a view - an empty one - also for an error frame or an absent column)
         IF R.err \/ ~HasCol(R, e.a.col) THEN [PlainU("unspec", TRUE) EXCEPT !.newvd = <<e.vdig>>]
         ELSE [Plain(e.vcells = ColOf(R, e.a.col).cells) EXCEPT !.newvd = <<e.vdig>>]
    [] OTHER -> JudgeIO(e, Fr, Gr)

\* (ambjudge = 1: the scenario asks for the step to be judged nevertheless - the witnesses of finding D21:
\* Distinct / GroupBy by such a column must go by the strings like everywhere else, C05 / C04)
JudgeOp(e, Fr, Gr) ==
  IF e.recv >= 0 /\ e.op \notin AmbSafeOps /\ AmbFrame(Fr[e.recv + 1]) /\ ~("ambjudge" \in DOMAIN e /\ e.ambjudge = 1)
  THEN AmbRes(e) ELSE JudgeOp1(e, Fr, Gr)

Judge(e, Fr, Gr) == LET j == JudgeOp(e, Fr, Gr) IN [j EXCEPT !.ok = @ /\ CallsOK(e, Fr, Gr)]
=============================================================================
