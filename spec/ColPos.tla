------------------------------- MODULE ColPos -------------------------------
(***************************************************************************)
(* Mechanism model of the column header of a frame (C06, C08, also C04):   *)
(* the ordered column slice together with the name map whose entries       *)
(* remember each column's POSITION (namedColumn.pos).  setColumn - used by *)
(* Copy, Apply, Eval, WithRowNums - replaces an existing destination "in   *)
(* its position" by trusting that remembered position, so every operation  *)
(* that builds a header (New, Select, Drop, setColumn, Aggregate) must     *)
(* leave positions consistent:                                             *)
(*   PosConsistent  for every name, the column at its remembered position  *)
(*                  carries that name, and names are unique;               *)
(*   Refines        the column order equals the abstract operation's.      *)
(* PinD16 re-enables the behaviour of the pinned commit (Aggregate keeps   *)
(* the position the column had in the grouped frame); StaleSelect models   *)
(* the analogous slip in Select.  Both must violate PosConsistent.          *)
(* Every complete history is emitted and executed on the real library,     *)
(* where a stale position shows as a misplaced, duplicated or missing      *)
(* column, or as a panic.                                                  *)
(***************************************************************************)
EXTENDS Integers, Sequences, TLC, SequencesExt, FiniteSets, Json

CONSTANTS DepthP, PinD16, StaleSelect, Emit

AllNames == {"A", "B", "C", "D"}
\* header = [cols : Seq(name), pos : [name -> position]]
Mk(cols) == [cols |-> cols, pos |-> [n \in {cols[i] : i \in 1..Len(cols)} |-> CHOOSE i \in 1..Len(cols) : cols[i] = n]]
Has(h, n) == n \in DOMAIN h.pos

SelectH(h, names) ==       \* Select: new slice and map; each entry gets its new position
  IF StaleSelect THEN [cols |-> names, pos |-> [n \in {names[i] : i \in 1..Len(names)} |-> h.pos[n]]]
  ELSE Mk(names)
DropH(h, n) == SelectH(h, SelectSeq(h.cols, LAMBDA c : c # n))
SetColumnH(h, n) ==        \* setColumn: overwrite at the remembered position, or append
  IF Has(h, n) THEN [h EXCEPT !.cols[h.pos[n]] = n]
  ELSE [cols |-> Append(h.cols, n), pos |-> [x \in DOMAIN h.pos \cup {n} |-> IF x = n THEN Len(h.cols) + 1 ELSE h.pos[x]]]
AggregateH(h, key, agg) == \* key column first, then the aggregated column
  [cols |-> <<key, agg>>, pos |-> [x \in {key, agg} |-> IF x = key THEN 1 ELSE IF PinD16 THEN h.pos[agg] ELSE 2]]

\* abstract column order
SetColumnA(cols, n) == IF \E i \in 1..Len(cols) : cols[i] = n THEN cols ELSE Append(cols, n)

VARIABLES hdr, abs, hist
vars == <<hdr, abs, hist>>
Init == hdr = Mk(<<"A", "B", "C", "D">>) /\ abs = <<"A", "B", "C", "D">> /\ hist = <<>>

Perms(s) == {p \in [1..Len(s) -> {s[i] : i \in 1..Len(s)}] : \A i, j \in 1..Len(s) : i # j => p[i] # p[j]}
Next ==
  /\ Len(hist) < DepthP
  /\ \/ \E n \in AllNames : Has(hdr, n) /\ Len(hdr.cols) > 1
          /\ hdr' = DropH(hdr, n) /\ abs' = SelectSeq(abs, LAMBDA c : c # n) /\ hist' = Append(hist, [op |-> "drop", n |-> n])
     \/ \E p \in Perms(hdr.cols) : p # hdr.cols /\ Len(hdr.cols) <= 3
          /\ hdr' = SelectH(hdr, p) /\ abs' = p /\ hist' = Append(hist, [op |-> "select", cols |-> p])
     \/ \E dst \in AllNames, src \in AllNames : Has(hdr, src) /\ dst # src
          /\ hdr' = SetColumnH(hdr, dst) /\ abs' = SetColumnA(abs, dst) /\ hist' = Append(hist, [op |-> "copy", dst |-> dst, src |-> src])
     \/ \E key \in AllNames, agg \in AllNames : Has(hdr, key) /\ Has(hdr, agg) /\ key # agg
          /\ hdr' = AggregateH(hdr, key, agg) /\ abs' = <<key, agg>> /\ hist' = Append(hist, [op |-> "agg", key |-> key, agg |-> agg])
Spec == Init /\ [][Next]_vars

PosConsistent ==
  /\ \A n \in DOMAIN hdr.pos : hdr.pos[n] \in 1..Len(hdr.cols) /\ hdr.cols[hdr.pos[n]] = n
  /\ \A i, j \in 1..Len(hdr.cols) : i # j => hdr.cols[i] # hdr.cols[j]
Refines == hdr.cols = abs

(************************* scenario emission *************************)
NB(n) == CASE n = "A" -> <<65>> [] n = "B" -> <<66>> [] n = "C" -> <<67>> [] n = "D" -> <<68>>
RECURSIVE ScnSteps(_, _, _)
\* the receiver of step j is the frame produced by step j-1; an "agg" step is GroupBy + Aggregate (one grouper more)
ScnSteps(j, recv, ng) ==
  IF j > Len(hist) THEN <<>>
  ELSE LET h == hist[j] IN
       CASE h.op = "drop" -> << [op |-> "Drop", recv |-> recv, cols |-> <<NB(h.n)>>] >> \o ScnSteps(j + 1, recv + 1, ng)
         [] h.op = "select" -> << [op |-> "Select", recv |-> recv, cols |-> [i \in 1..Len(h.cols) |-> NB(h.cols[i])]] >> \o ScnSteps(j + 1, recv + 1, ng)
         [] h.op = "copy" -> << [op |-> "Copy", recv |-> recv, dst |-> NB(h.dst), src |-> NB(h.src)] >> \o ScnSteps(j + 1, recv + 1, ng)
         [] h.op = "agg" -> << [op |-> "GroupBy", recv |-> recv, cols |-> <<NB(h.key)>>],
                               [op |-> "Aggregate", recv |-> ng, aggs |-> << [fn |-> [k |-> "agg", sym |-> "firstAggI"], col |-> NB(h.agg)] >>] >>
                            \o ScnSteps(j + 1, recv + 1, ng + 1)
EmitScn == (Emit /\ Len(hist) = DepthP) =>
  PrintT(<<"SCN", ToJson([steps |-> << [op |-> "New", recv |-> -1, hasorder |-> TRUE, colorder |-> <<<<65>>, <<66>>, <<67>>, <<68>>>>,
                                        data |-> << [name |-> <<65>>, kind |-> "int", ints |-> <<1, 2, 1>>], [name |-> <<66>>, kind |-> "int", ints |-> <<10, 20, 30>>],
                                                    [name |-> <<67>>, kind |-> "int", ints |-> <<100, 200, 300>>], [name |-> <<68>>, kind |-> "int", ints |-> <<7, 8, 9>>] >>] >>
                                    \o ScnSteps(1, 0, 0)])>>)
=============================================================================
