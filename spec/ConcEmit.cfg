SPECIFICATION Spec
CONSTANTS
  Pins = {}
  EmitRels = {"same", "slice"}
  Emit = TRUE
INVARIANTS NoRace WritesPrivate EmitScn
CHECK_DEADLOCK FALSE
