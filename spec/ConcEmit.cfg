SPECIFICATION Spec
CONSTANTS
  Pins = {}
  EmitRels = {"same", "slice", "sorted"}
  Emit = TRUE
INVARIANTS NoRace WritesPrivate EmitScn
CHECK_DEADLOCK FALSE
