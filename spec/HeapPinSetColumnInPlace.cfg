SPECIFICATION Spec
CONSTANTS
  Depth = 2
  SortInPlace = FALSE
  SetColumnInPlace = TRUE
  FilterInPlace = FALSE
  Emit = FALSE
INVARIANT Persistent
PROPERTY StoresImmutable
CHECK_DEADLOCK FALSE
