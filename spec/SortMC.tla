------------------------------- MODULE SortMC -------------------------------
(***************************************************************************)
(* C03, exhaustively at small scale:                                       *)
(*  - the row order defined by any list of Order{Column, Reverse,          *)
(*    NullLast} keys (KeyCmp3 / RowCmp of Rel.tla) is a strict weak order   *)
(*    - irreflexive, transitive, with transitive incomparability - so a     *)
(*    sorted arrangement always exists and "never decreasing" is           *)
(*    well-defined (StrictWeakOrder);                                      *)
(*  - Reverse inverts the complete order of its key including the null     *)
(*    placement (ReverseInverts);                                          *)
(*  - the two deciders of "each row exactly once and whole" used by the    *)
(*    trace specification - through a row-number column, and by counting   *)
(*    equal rows - agree on every arrangement, also on corrupted ones       *)
(*    (DecidersAgree);                                                     *)
(*  - every frame / order list is emitted as a scenario and sorted by the  *)
(*    real code.                                                           *)
(* Frames: n <= MaxN rows, key column K of type float / string / enum      *)
(* (declared order opposite to the alphabet) over {null, v0, v1}, second   *)
(* key column B (int 0/1), row-number column rid.                          *)
(***************************************************************************)
EXTENDS Rel, Json

CONSTANTS MaxN, Emit

V0(typ) == IF typ = "float" THEN IntCell(0) ELSE MkCell(<<97>>)          \* 0.0 (same chunks as int 0) / "a"
V1(typ) == IF typ = "float" THEN <<0, 0, 3145728, 0, 0>> ELSE MkCell(<<98>>)   \* 1.0 / "b"
KCells(typ) == {NullCell, V0(typ), V1(typ)}
EnumVals == << <<98>>, <<97>> >>        \* declared order: "b" before "a"

VARIABLES typ, kcol, bcol, orders, stage
vars == <<typ, kcol, bcol, orders, stage>>

OrderSet == {<<[col |-> <<75>>, rev |-> r, nulllast |-> nl]>> : r \in {0, 1}, nl \in {0, 1}}
        \cup {<<[col |-> <<66>>, rev |-> r, nulllast |-> 0], [col |-> <<75>>, rev |-> r2, nulllast |-> nl]>> : r \in {0, 1}, r2 \in {0, 1}, nl \in {0, 1}}

\* the case is chosen in an action, not in Init: TLC evaluates initial states sequentially but
\* successors (and the invariants on them) on all workers
Init == /\ typ \in {"float", "string", "enum"} /\ orders \in OrderSet
        /\ kcol = <<>> /\ bcol = <<>> /\ stage = 0
Next == /\ stage = 0 /\ stage' = 1
        /\ \E n \in 0..MaxN : kcol' \in [1..n -> KCells(typ)] /\ bcol' \in [1..n -> {IntCell(0), IntCell(1)}]
        /\ UNCHANGED <<typ, orders>>
Spec == Init /\ [][Next]_vars

N == Len(kcol)
F == [err |-> FALSE, n |-> N,
      cols |-> << MkCol(<<75>>, typ, kcol, IF typ = "enum" THEN EnumVals ELSE <<>>, typ = "enum"),
                  PlainCol(<<66>>, "int", bcol),
                  PlainCol(<<114, 105, 100>>, "int", [r \in 1..N |-> IntCell(r - 1)]) >>]
ObsOf(perm) == [len |-> Len(perm), names |-> Names(F), types |-> Types(F),
                cols |-> [c \in 1..3 |-> [j \in 1..Len(perm) |-> F.cols[c].cells[perm[j]]]]]
Id == ObsOf(Iota(N))
Less(i, j) == RowCmp(F, Id, orders, 1, i, j) < 0

StrictWeakOrder ==
  /\ \A i \in 1..N : ~Less(i, i)
  /\ \A i, j, k \in 1..N : Less(i, j) /\ Less(j, k) => Less(i, k)
  /\ \A i, j, k \in 1..N : ~Less(i, j) /\ ~Less(j, i) /\ ~Less(j, k) /\ ~Less(k, j) => ~Less(i, k) /\ ~Less(k, i)

Flip(os) == [k \in 1..Len(os) |-> [os[k] EXCEPT !.rev = 1 - @]]
ReverseInverts == \A i, j \in 1..N : RowCmp(F, Id, Flip(orders), 1, i, j) = 0 - RowCmp(F, Id, orders, 1, i, j)

\* all arrangements of the rows, and arrangements with one row duplicated over another
Perms == {p \in [1..N -> 1..N] : \A a, b \in 1..N : a # b => p[a] # p[b]}
Arrangements == IF N <= 3 THEN [1..N -> 1..N] ELSE Perms
RID == <<114, 105, 100>>
DecidersAgree == \A p \in Arrangements : LET o == ObsOf(p) IN SubRowsFast(F, o, 3) = SubRowsSlow(F, o)
\* SortPost accepts exactly the ordered permutations
SortPostExact == \A p \in Arrangements :
  SortPost(F, orders, ObsOf(p), RID) = (p \in Perms /\ \A j \in 1..(N - 1) : RowCmp(F, ObsOf(p), orders, 1, j + 1, j) >= 0)
SortedExists == \E p \in Perms : SortPost(F, orders, ObsOf(p), RID)

(************************* scenario emission *************************)
FloatTxt(c) == IF IsNull(c) THEN "NaN" ELSE IF c = IntCell(0) THEN "0" ELSE "1"
StrOf(c) == KeyOf(c)
ScnOrders == [k \in 1..Len(orders) |-> [col |-> orders[k].col, rev |-> orders[k].rev = 1, nulllast |-> orders[k].nulllast = 1]]
KData == IF typ = "float" THEN [name |-> <<75>>, kind |-> "float", floats |-> [r \in 1..N |-> FloatTxt(kcol[r])]]
         ELSE [name |-> <<75>>, kind |-> "string", strs |-> [r \in 1..N |-> IF IsNull(kcol[r]) THEN <<0>> ELSE StrOf(kcol[r])]]
EmitScn == (Emit /\ N >= 2) =>
  PrintT(<<"SCN", ToJson([steps |-> <<
     [op |-> "New", recv |-> -1, hasorder |-> TRUE, colorder |-> <<<<75>>, <<66>>>>, hasenums |-> typ = "enum",
      enums |-> IF typ = "enum" THEN << [name |-> <<75>>, vals |-> EnumVals] >> ELSE <<>>,
      data |-> << KData, [name |-> <<66>>, kind |-> "int", ints |-> [r \in 1..N |-> SmallInt(bcol[r])]] >>],
     [op |-> "WithRowNums", recv |-> 0, dst |-> RID],
     [op |-> "Sort", recv |-> 1, orders |-> ScnOrders, rid |-> RID] >>])>>)
=============================================================================
