------------------------------ MODULE EvalImpl ------------------------------
(***************************************************************************)
(* Mechanism model of Eval (C07): the execute methods of expression.go -   *)
(* temporary columns named <prefix>-temp-<n> (first free n), materialised   *)
(* as real columns by Apply, dropped by each enclosing node when absent     *)
(* from ITS input frame, the final Copy to dst and Drop of the temporary.   *)
(*                                                                         *)
(* Cells are SYMBOLIC TERMS, so "the right function applied to the right    *)
(* operands in the right order, folded from the left" is term equality.     *)
(* Refines: the frame the mechanism returns = the original frame plus /     *)
(* with replaced dst holding the term the expression denotes; no temporary  *)
(* survives; nothing else is renamed or moved.                              *)
(* PinD5 / PinD14 switch two repaired defects back on and must make the     *)
(* check fail (D14 was first found by TLC on this model).                   *)
(***************************************************************************)
EXTENDS Integers, Sequences, TLC, SequencesExt, FiniteSets, Json

CONSTANTS PinD5,      \* colConstExpr forgets that it flipped (const, col)
          PinD14,     \* Eval drops the result column even when it IS dst
          Deep, Emit

Names(f) == {f[i].name : i \in 1..Len(f)}
HasCol(f, n) == n \in Names(f)
TermOf(f, n) == f[SelectInSeq(f, LAMBDA c : c.name = n)].term
SetColumn(f, n, t) == IF HasCol(f, n) THEN [i \in 1..Len(f) |-> IF f[i].name = n THEN [name |-> n, term |-> t] ELSE f[i]]
                      ELSE Append(f, [name |-> n, term |-> t])
Drop(f, ns) == SelectSeq(f, LAMBDA c : c.name \notin ns)
CopyCol(f, dst, src) == IF dst = src THEN f ELSE SetColumn(f, dst, TermOf(f, src))
TempName(f, prefix) ==      \* tempColName: the first free <prefix>-temp-<i>
  LET i == CHOOSE i \in 0..20 : (prefix \o "-temp-" \o ToString(i)) \notin Names(f)
                                 /\ \A j \in 0..(i - 1) : (prefix \o "-temp-" \o ToString(j)) \in Names(f)
  IN prefix \o "-temp-" \o ToString(i)

ColE(n) == [k |-> "col", n |-> n]
ConstE(v) == [k |-> "const", v |-> v]
Call(op, args) == [k |-> "call", op |-> op, args |-> args]

(************************* what the expression denotes *************************)
RECURSIVE TermSem(_, _)
TermSem(f, e) ==
  CASE e.k = "col" -> TermOf(f, e.n)
    [] e.k = "const" -> <<"const", e.v>>
    [] e.k = "call" ->
         IF Len(e.args) = 1 THEN <<e.op, TermSem(f, e.args[1])>>
         ELSE FoldLeft(LAMBDA acc, a : <<e.op, acc, TermSem(f, a)>>, TermSem(f, e.args[1]), Tail(e.args))  \* left fold
EvalSemT(f, dst, e) == SetColumn(f, dst, TermSem(f, e))

(************************* the mechanism; Exec returns [f, col] *************************)
Apply0(f, dst, v) == SetColumn(f, dst, <<"const", v>>)
Apply1(f, op, dst, s) == SetColumn(f, dst, <<op, TermOf(f, s)>>)
Apply2(f, op, dst, s1, s2) == SetColumn(f, dst, <<op, TermOf(f, s1), TermOf(f, s2)>>)

ExecConst(f, v) == LET n == TempName(f, "const") IN [f |-> Apply0(f, n, v), col |-> n]
ExecUnary(f, op, s) == LET n == TempName(f, "unary") IN [f |-> Apply1(f, op, n, s), col |-> n]
ExecColCol(f, op, s1, s2) == LET n == TempName(f, "colcol") IN [f |-> Apply2(f, op, n, s1, s2), col |-> n]
ExecColConst(f, op, s, v, constFirst) ==
  LET c == ExecConst(f, v)
      r == IF constFirst /\ ~PinD5 THEN ExecColCol(c.f, op, c.col, s) ELSE ExecColCol(c.f, op, s, c.col)
  IN [f |-> Drop(r.f, {c.col}), col |-> r.col]

RECURSIVE Exec(_, _)
Exec(f, e) ==      \* newExpr decoding order: col, const, unary, col-const (either order), col-col, nested
  CASE e.k = "col" -> [f |-> f, col |-> e.n]
    [] e.k = "const" -> ExecConst(f, e.v)
    [] e.k = "call" ->
        IF Len(e.args) = 1 THEN
           IF e.args[1].k = "col" THEN ExecUnary(f, e.op, e.args[1].n)
           ELSE LET r == Exec(f, e.args[1])
                    u == ExecUnary(r.f, e.op, r.col)
                IN [f |-> IF HasCol(f, r.col) THEN u.f ELSE Drop(u.f, {r.col}), col |-> u.col]
        ELSE IF Len(e.args) = 2 THEN
           LET a == e.args[1]  b == e.args[2] IN
           IF a.k = "col" /\ b.k = "const" THEN ExecColConst(f, e.op, a.n, b.v, FALSE)
           ELSE IF a.k = "const" /\ b.k = "col" THEN ExecColConst(f, e.op, b.n, a.v, TRUE)
           ELSE IF a.k = "col" /\ b.k = "col" THEN ExecColCol(f, e.op, a.n, b.n)
           ELSE LET l == Exec(f, a)
                    r == Exec(l.f, b)
                    c == ExecColCol(r.f, e.op, l.col, r.col)
                IN [f |-> Drop(c.f, {n \in {l.col, r.col} : ~HasCol(f, n)}), col |-> c.col]
        ELSE \* Expr(name, a0, a1, a2, ...) = Expr(name, newExpr([name, a0, a1]), a2, ...)
           Exec(f, Call(e.op, <<Call(e.op, <<e.args[1], e.args[2]>>)>> \o SubSeq(e.args, 3, Len(e.args))))
EvalImplF(f, dst, e) ==
  LET r == Exec(f, e)
      c == CopyCol(r.f, dst, r.col)
  IN IF HasCol(f, r.col) \/ (r.col = dst /\ ~PinD14) THEN c ELSE Drop(c, {r.col})

(************************* small scope *************************)
Atoms == {ColE("A"), ColE("const-temp-0"), ConstE(1)}
E1 == Atoms \cup {Call("neg", <<a>>) : a \in Atoms} \cup {Call("-", <<a, b>>) : a, b \in Atoms}
E2 == E1 \cup {Call("neg", <<a>>) : a \in E1} \cup {Call("-", <<a, b>>) : a, b \in E1}
         \cup {Call("-", <<a, b, c>>) : a, b, c \in Atoms}
E3 == E2 \cup {Call("-", <<a, b>>) : a \in E2, b \in Atoms} \cup {Call("-", <<a, b>>) : a \in Atoms, b \in E2}
         \cup {Call("neg", <<a>>) : a \in E2} \cup {Call("-", <<a, b, c, d>>) : a, b, c, d \in Atoms}
Exprs == IF Deep THEN E3 ELSE E2
Frames == { << [name |-> "A", term |-> <<"A">>], [name |-> "const-temp-0", term |-> <<"T">>] >>,
            << [name |-> "const-temp-0", term |-> <<"T">>], [name |-> "A", term |-> <<"A">>],
               [name |-> "colcol-temp-0", term |-> <<"U">>] >>,
            << [name |-> "unary-temp-0", term |-> <<"V">>], [name |-> "A", term |-> <<"A">>],
               [name |-> "const-temp-0", term |-> <<"T">>], [name |-> "const-temp-1", term |-> <<"W">>] >> }
Dsts == {"A", "N", "const-temp-0", "colcol-temp-0", "colcol-temp-1", "unary-temp-0", "const-temp-1", "unary-temp-1"}

VARIABLES f, dst, e
Init == f \in Frames /\ dst \in Dsts /\ e \in Exprs
Next == UNCHANGED <<f, dst, e>>
Spec == Init /\ [][Next]_<<f, dst, e>>
Refines == EvalImplF(f, dst, e) = EvalSemT(f, dst, e)

(************************* scenario emission *************************)
NB(n) ==
  CASE n = "A" -> <<65>>
    [] n = "N" -> <<78>>
    [] n = "const-temp-0" -> <<99, 111, 110, 115, 116, 45, 116, 101, 109, 112, 45, 48>>
    [] n = "colcol-temp-0" -> <<99, 111, 108, 99, 111, 108, 45, 116, 101, 109, 112, 45, 48>>
    [] n = "colcol-temp-1" -> <<99, 111, 108, 99, 111, 108, 45, 116, 101, 109, 112, 45, 49>>
    [] n = "unary-temp-0" -> <<117, 110, 97, 114, 121, 45, 116, 101, 109, 112, 45, 48>>
    [] n = "const-temp-1" -> <<99, 111, 110, 115, 116, 45, 116, 101, 109, 112, 45, 49>>
    [] n = "unary-temp-1" -> <<117, 110, 97, 114, 121, 45, 116, 101, 109, 112, 45, 49>>
RECURSIVE ScnExpr(_)
ScnExpr(x) ==
  CASE x.k = "col" -> [k |-> "col", name |-> NB(x.n)]
    [] x.k = "const" -> [k |-> "const", v |-> [t |-> "int", i |-> 10]]
    [] x.k = "call" -> [k |-> "call", op |-> x.op, args |-> [j \in 1..Len(x.args) |-> ScnExpr(x.args[j])]]
\* distinct small ints per column so that a wrong operand or a wrong order shows in the values
ColInts(i) == <<i * 3 + 1, i * 5 + 2, i * 7 + 4>>
EmitScn == Emit =>
  PrintT(<<"SCN", ToJson([steps |-> <<
     [op |-> "New", recv |-> -1, hasorder |-> TRUE, colorder |-> [i \in 1..Len(f) |-> NB(f[i].name)],
      data |-> [i \in 1..Len(f) |-> [name |-> NB(f[i].name), kind |-> "int", ints |-> ColInts(i)]]],
     [op |-> "Eval", recv |-> 0, dst |-> NB(dst), expr |-> ScnExpr(e), ctx |-> << [name |-> "neg", sym |-> "negI"] >>] >>])>>)
=============================================================================
