SPECIFICATION Spec
CONSTANTS
  MaxCard = 255
  DepthE = 4
  Emit = FALSE
INVARIANTS Sticky GrouperPasses
PROPERTY ErrIffInvalid
CHECK_DEADLOCK FALSE
