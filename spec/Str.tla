-------------------------------- MODULE Str --------------------------------
(***************************************************************************)
(* String() (C09): the documented text table.  Header "name(t)" per column *)
(* (t = first letter of the type), a dashed line, the first 50 rows with   *)
(* every cell right-aligned to the column width max(len(header), 5) or cut *)
(* to it with "...", the note "... printout truncated ..." beyond 50 rows, *)
(* and the line "Dims = <columns> x <rows>".  Cells are the strconv texts  *)
(* (txt), null / NaN printed as "null".                                    *)
(***************************************************************************)
EXTENDS JsonG

Rep(b, n) == [i \in 1..n |-> b]
FixLen(s, pad, w) ==
  IF Len(s) > w THEN SubSeq(s, 1, w - 3) \o <<46, 46, 46>>
  ELSE Rep(pad, w - Len(s)) \o s
JoinWith(parts, sep) ==
  FoldLeft(LAMBDA acc, i : IF i = 1 THEN parts[1] ELSE acc \o sep \o parts[i], <<>>, Iota(Len(parts)))
TypeLetter(typ) == CASE typ = "int" -> 105 [] typ = "float" -> 102 [] typ = "bool" -> 98 [] typ = "string" -> 115
                     [] typ = "enum" -> 101 [] OTHER -> 85
NullText == <<110, 117, 108, 108>>
Truncated == <<46,46,46,32,112,114,105,110,116,111,117,116,32,116,114,117,110,99,97,116,101,100,32,46,46,46>>

StringSem(f, txt) ==
  LET nc == Len(f.cols)
      hdr == [c \in 1..nc |-> f.cols[c].name \o <<40, TypeLetter(f.cols[c].typ), 41>>]
      w == [c \in 1..nc |-> Max2(Len(hdr[c]), 5)]
      cellText(c, r) == IF txt[c][r][1] = 1 THEN NullText ELSE Tail(txt[c][r])
      shown == Min2(f.n, 50)
      lines == << JoinWith([c \in 1..nc |-> FixLen(hdr[c], 32, w[c])], <<32>>),
                  JoinWith([c \in 1..nc |-> FixLen(<<>>, 45, w[c])], <<32>>) >>
               \o [r \in 1..shown |-> JoinWith([c \in 1..nc |-> FixLen(cellText(c, r), 32, w[c])], <<32>>)]
               \o (IF f.n > 50 THEN <<Truncated>> ELSE <<>>)
               \o << <<10>> \o <<68, 105, 109, 115, 32, 61, 32>> \o DecBytes(nc) \o <<32, 120, 32>> \o DecBytes(f.n) >>
  IN JoinWith(lines, <<10>>)
=============================================================================
