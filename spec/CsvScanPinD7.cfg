SPECIFICATION Spec
CONSTANTS
  MaxCard = 255
  MaxLen = 4
  Alphabet = {120, 44, 34, 10, 13}
  Caps = {2, 3}
  PinD8 = FALSE
  PinD12 = FALSE
  PinD18 = FALSE
  WithFault = TRUE
  PinD7 = TRUE
  Emit = FALSE
INVARIANTS Faithful FaultReported ErrorFreeIsComplete
CHECK_DEADLOCK FALSE
