SPECIFICATION Spec
CONSTANTS
  DepthP = 3
  PinD16 = FALSE
  StaleSelect = FALSE
  Emit = TRUE
INVARIANTS PosConsistent Refines EmitScn
CHECK_DEADLOCK FALSE
