SPECIFICATION Spec
CONSTANTS
  MaxRows = 2
  Depth2 = FALSE
  PinD2 = TRUE
  PinD3 = FALSE
  Emit = FALSE
INVARIANT Refines
CHECK_DEADLOCK FALSE
