SPECIFICATION Spec
INVARIANTS AgreesWrongLow
CHECK_DEADLOCK FALSE
