SPECIFICATION Spec
CONSTANTS
  MaxCard = 255
  MaxN = 3
  Emit = TRUE
INVARIANTS StrictWeakOrder ReverseInverts DecidersAgree SortPostExact SortedExists EmitScn
CHECK_DEADLOCK FALSE
