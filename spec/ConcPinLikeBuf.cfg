SPECIFICATION Spec
CONSTANTS
  Pins = {"LikeBuf"}
  EmitRels = {"same", "slice", "select", "sorted", "filtered", "added"}
  Emit = FALSE
INVARIANTS NoRace WritesPrivate
CHECK_DEADLOCK FALSE
