SPECIFICATION Spec
CONSTANTS
  MaxCard = 255
  NSym = 3
  MaxLenE = 4
  PinLimit = FALSE
  PinConst = FALSE
  Emit = TRUE
INVARIANTS Decodes TableOK Refines EmitScn
CHECK_DEADLOCK FALSE
