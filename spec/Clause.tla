------------------------------- MODULE Clause -------------------------------
(***************************************************************************)
(* Row-wise semantics of filter clauses (C02, C17, C18) and the typing     *)
(* rules of filter arguments (C10), transcribed from the documentation of  *)
(* filter.Filter, types/aliases.go and the per-type Filter doc strings.    *)
(*                                                                         *)
(* clause = [k |-> "leaf", col, cmpk, cmp, arg, inv, tbl, argt, conv, rx]  *)
(*        | [k |-> "and" / "or", subs]  | [k |-> "not", subs = <<c>>]      *)
(*        | [k |-> "null"]                                                 *)
(* arg    = [t, c, ci, s, l, li, lt]  (see harness/exec.go Val.tla)        *)
(*                                                                         *)
(* LeafTruth returns [st, t]: st in "ok" "err" "unspec" "miss", t the      *)
(* truth value per row BEFORE Filter.Inverse is applied.                   *)
(***************************************************************************)
EXTENDS Ops, Bitwise

Ord == {"<", "<=", ">", ">=", "=", "!="}
OrdHolds(cmp, c) ==      \* c = -1, 0, 1 is the comparison of the cell with the argument
  CASE cmp = "<" -> c < 0 [] cmp = "<=" -> c <= 0 [] cmp = ">" -> c > 0
    [] cmp = ">=" -> c >= 0 [] cmp = "=" -> c = 0 [] cmp = "!=" -> c # 0

\* null / NaN on either side makes every comparison false, except != which is true
CmpCells(typ, vals, cmp, a, b) ==
  IF IsNull(a) \/ IsNull(b) THEN cmp = "!=" ELSE OrdHolds(cmp, ValCmp(typ, vals, a, b))

AllRows(f, v) == [r \in 1..f.n |-> v]
OkT(t) == [st |-> "ok", t |-> t]
St(s) == [st |-> s, t |-> <<>>]

\* function tables: rows <<arg cells..., result cell>>
Lookup1(tbl, a) == LET i == SelectInSeq(tbl, LAMBDA row : row[1] = a) IN IF i = 0 THEN <<2>> ELSE tbl[i][2]
Lookup2(tbl, a, b) == LET i == SelectInSeq(tbl, LAMBDA row : row[1] = a /\ row[2] = b) IN
                      IF i = 0 THEN <<2>> ELSE tbl[i][3]

(***************************** like / ilike (C18) *****************************)
IsMeta(b) == b \in {92, 46, 43, 42, 63, 40, 41, 124, 91, 93, 123, 125, 94, 36}
HasPrefixB(s, p) == Len(p) <= Len(s) /\ SubSeq(s, 1, Len(p)) = p
HasSuffixB(s, p) == Len(p) <= Len(s) /\ SubSeq(s, Len(s) - Len(p) + 1, Len(s)) = p
ContainsB(s, p) == \E i \in 0..(Len(s) - Len(p)) : SubSeq(s, i + 1, i + Len(p)) = p
FuzzyStart(p) == Len(p) > 0 /\ p[1] = 37
FuzzyEnd(p) == Len(p) > 0 /\ p[Len(p)] = 37
TrimPct(p) == LET a == IF FuzzyStart(p) THEN Tail(p) ELSE p IN IF FuzzyEnd(a) THEN Front(a) ELSE a
\* wildcard matching of byte string s against pattern pat (already upper-cased for ilike);
\* fs / fe are taken from the pattern as written
LikeLiteral(pat, fs, fe, s) ==
  LET body == TrimPct(pat) IN
  IF fs /\ fe THEN ContainsB(s, body)
  ELSE IF fs THEN HasSuffixB(s, body)
  ELSE IF fe THEN HasPrefixB(s, body)
  ELSE s = pat
\* the Go regular expression the pattern stands for
RegexText(pat, ci) ==
  LET fs == FuzzyStart(pat)  fe == FuzzyEnd(pat)
      a == IF fs THEN Tail(pat) ELSE <<94>> \o pat
      b == IF fe THEN Front(a) ELSE a \o <<36>>
  IN IF ci THEN <<40, 63, 105, 41>> \o b ELSE b
\* rx rows: <<regex text, cell bytes, m>>, m = 1 match, 0 no match, 2 does not compile
RxLookup(rx, text, s) == LET i == SelectInSeq(rx, LAMBDA row : row[1] = text /\ row[2] = s) IN
                         IF i = 0 THEN 3 ELSE rx[i][3]

LikeTruth(f, lf, col) ==
  LET pat == KeyOf(lf.arg.c)
      ci == lf.cmp = "ilike"
      isRx == \E i \in 1..Len(pat) : IsMeta(pat[i])
      fs == FuzzyStart(pat)  fe == FuzzyEnd(pat)
      up(x) == Lookup1(lf.tbl, MkCell(x))
  IN
  IF isRx THEN
     LET text == RegexText(pat, ci)
         m == [r \in 1..f.n |-> IF IsNull(col.cells[r]) THEN 0 ELSE RxLookup(lf.rx, text, KeyOf(col.cells[r]))]
         vals == {RxLookup(lf.rx, text, <<>>)} \cup {m[r] : r \in 1..f.n}
     IN IF 3 \in vals THEN St("miss")
        ELSE IF 2 \in vals THEN St("err")
        ELSE OkT([r \in 1..f.n |-> m[r] = 1])
  ELSE IF ci THEN
     LET upat == up(pat)
         ucell == [r \in 1..f.n |-> IF IsNull(col.cells[r]) THEN <<1>> ELSE up(KeyOf(col.cells[r]))]
     IN IF upat = <<2>> \/ \E r \in 1..f.n : ucell[r] = <<2>> THEN St("miss")
        ELSE OkT([r \in 1..f.n |-> ~IsNull(col.cells[r]) /\ LikeLiteral(KeyOf(upat), fs, fe, KeyOf(ucell[r]))])
  ELSE OkT([r \in 1..f.n |-> ~IsNull(col.cells[r]) /\ LikeLiteral(pat, fs, fe, KeyOf(col.cells[r]))])

(***************************** leaves *****************************)
InList(l, c) == \E i \in 1..Len(l) : ~IsNull(l[i]) /\ KeyEq(l[i], c)

\* bit tests are specified on small non-negative operands only
BitsOK(c) == IsSmallInt(c) /\ SmallInt(c) >= 0

IntLeaf(f, lf, col) ==
  LET a == lf.arg  cmp == lf.cmp IN
  IF a.t \in {"int", "float"} THEN
     IF cmp \in Ord THEN
        IF IsNull(a.ci) THEN St("unspec")          \* float argument that does not fit an int
        ELSE OkT([r \in 1..f.n |-> OrdHolds(cmp, KeyCmp(col.cells[r], a.ci))])
     ELSE IF cmp \in {"any_bits", "all_bits"} THEN
        IF ~BitsOK(a.ci) \/ \E r \in 1..f.n : ~BitsOK(col.cells[r]) THEN St("unspec")
        ELSE OkT([r \in 1..f.n |-> LET v == SmallInt(col.cells[r])  m == SmallInt(a.ci) IN
                                   IF cmp = "any_bits" THEN (v & m) > 0 ELSE (v & m) = m])
     ELSE St("err")
  ELSE IF a.t = "nan" THEN (IF cmp \in Ord \cup {"any_bits", "all_bits"} THEN St("unspec") ELSE St("err"))
  ELSE IF a.t \in {"ints", "floats"} \/ (a.t = "ifaces" /\ \A i \in 1..Len(a.lt) : a.lt[i] \in {"int", "float"}) THEN
     IF cmp # "in" THEN St("err")
     ELSE IF \E i \in 1..Len(a.li) : IsNull(a.li[i]) \/ a.lt[i] = "nan" THEN St("unspec")
     ELSE OkT([r \in 1..f.n |-> InList(a.li, col.cells[r])])
  ELSE IF a.t = "nil" THEN
     IF cmp = "isnull" THEN OkT(AllRows(f, FALSE))
     ELSE IF cmp = "isnotnull" THEN OkT(AllRows(f, TRUE))
     ELSE St("err")
  ELSE St("err")

FloatLeaf(f, lf, col) ==
  LET a == lf.arg  cmp == lf.cmp IN
  IF a.t = "float" THEN
     IF cmp \in Ord THEN OkT([r \in 1..f.n |-> CmpCells("float", <<>>, cmp, col.cells[r], a.c)])
     ELSE St("err")
  ELSE IF a.t = "nil" THEN
     IF cmp = "isnull" THEN OkT([r \in 1..f.n |-> IsNull(col.cells[r])])
     ELSE IF cmp = "isnotnull" THEN OkT([r \in 1..f.n |-> ~IsNull(col.cells[r])])
     ELSE St("err")
  ELSE St("err")                                    \* includes a NaN argument and int constants

BoolLeaf(f, lf, col) ==
  IF lf.arg.t = "bool" /\ lf.cmp \in {"=", "!="}
  THEN OkT([r \in 1..f.n |-> OrdHolds(lf.cmp, KeyCmp(col.cells[r], lf.arg.c))])
  ELSE St("err")

AllStrings(a) == a.t = "strs" \/ (a.t = "ifaces" /\ \A i \in 1..Len(a.lt) : a.lt[i] = "string")

StringLeaf(f, lf, col) ==
  LET a == lf.arg  cmp == lf.cmp IN
  IF a.t = "string" THEN
     IF cmp \in Ord THEN OkT([r \in 1..f.n |-> CmpCells("string", <<>>, cmp, col.cells[r], a.c)])
     ELSE IF cmp \in {"like", "ilike"} THEN LikeTruth(f, lf, col)
     ELSE St("err")
  ELSE IF AllStrings(a) THEN
     IF cmp = "in" THEN OkT([r \in 1..f.n |-> ~IsNull(col.cells[r]) /\ InList(a.l, col.cells[r])])
     ELSE St("err")
  ELSE IF a.t = "nil" THEN
     IF cmp = "isnull" THEN OkT([r \in 1..f.n |-> IsNull(col.cells[r])])
     ELSE IF cmp = "isnotnull" THEN OkT([r \in 1..f.n |-> ~IsNull(col.cells[r])])
     ELSE St("err")
  ELSE St("err")

EnumLeaf(f, lf, col) ==
  LET a == lf.arg  cmp == lf.cmp IN
  IF a.t = "string" THEN
     IF cmp \in Ord THEN
        IF RankOf(col.vals, KeyOf(a.c)) # 0
        THEN OkT([r \in 1..f.n |-> CmpCells("enum", col.vals, cmp, col.cells[r], a.c)])
        ELSE IF col.strict THEN St("err")            \* undeclared constant against declared values
        ELSE OkT(AllRows(f, cmp = "!="))             \* derived values: the constant equals no cell
     ELSE IF cmp \in {"like", "ilike"} THEN LikeTruth(f, lf, col)
     ELSE St("err")
  ELSE IF AllStrings(a) THEN
     IF cmp = "in" THEN OkT([r \in 1..f.n |-> ~IsNull(col.cells[r]) /\ InList(a.l, col.cells[r])])
     ELSE St("err")
  ELSE IF a.t = "nil" THEN
     IF cmp = "isnull" THEN OkT([r \in 1..f.n |-> IsNull(col.cells[r])])
     ELSE IF cmp = "isnotnull" THEN OkT([r \in 1..f.n |-> ~IsNull(col.cells[r])])
     ELSE St("err")
  ELSE St("err")

\* comparison with the same row of another column
ColLeaf(f, lf, col) ==
  LET an == lf.arg.s IN
  IF ~HasCol(f, an) THEN St("err")
  ELSE LET ac == ColOf(f, an)
           mixed == (col.typ = "int" /\ ac.typ = "float") \/ (col.typ = "float" /\ ac.typ = "int")
           conv(c) == Lookup1(lf.conv, c)            \* Go's float64(int) of an int cell
           lhs(r) == IF col.typ = "int" /\ mixed THEN conv(col.cells[r]) ELSE col.cells[r]
           rhs(r) == IF ac.typ = "int" /\ mixed THEN conv(ac.cells[r]) ELSE ac.cells[r]
           typ == IF mixed THEN "float" ELSE col.typ
       IN
       IF ~mixed /\ col.typ # ac.typ THEN St("err")
       ELSE IF col.typ = "enum" /\ lf.cmpk # "fn2" /\ col.vals # ac.vals THEN St("err")   \* built-ins compare ranks
       ELSE IF lf.cmpk = "fn2" THEN
            IF lf.argt # FnType(typ) \/ lf.rest # "bool" \/ lf.arity # 2 THEN St("err")
            ELSE LET t == [r \in 1..f.n |-> Lookup2(lf.tbl, lhs(r), rhs(r))] IN
                 IF \E r \in 1..f.n : t[r] = <<2>> THEN St("miss")
                 ELSE OkT([r \in 1..f.n |-> t[r] = <<0, 0, 1>>])
       ELSE IF lf.cmp \notin Ord THEN St("err")
       ELSE IF typ = "bool" /\ lf.cmp \notin {"=", "!="} THEN St("err")
       ELSE IF mixed /\ \E r \in 1..f.n : lhs(r) = <<2>> \/ rhs(r) = <<2>> THEN St("miss")
       ELSE OkT([r \in 1..f.n |-> CmpCells(typ, col.vals, lf.cmp, lhs(r), rhs(r))])

LeafTruth(f, lf) ==
  IF ~HasCol(f, lf.col) THEN St("err")
  ELSE LET col == ColOf(f, lf.col) IN
  IF col.typ = "Undefined" THEN St("unspec")
  ELSE IF lf.cmpk = "str" /\ lf.cmp = "not in" THEN
       \* filter.Nin is exported but no column implements it; it only works as the built-in inverse of
       \* "in" (Inverse: true). No document says which: accept error and result alike (DESIGN.md 5.4).
       St("unspec")
  ELSE IF lf.cmpk = "bad" THEN (IF lf.arg.t = "col" /\ ~HasCol(f, lf.arg.s) THEN St("err") ELSE St("err"))
  ELSE IF lf.arg.t = "col" THEN
       IF lf.cmpk = "fn1" THEN (IF ~HasCol(f, lf.arg.s) \/ lf.rest # "bool" \/ lf.arity # 1 THEN St("err") ELSE St("unspec"))
       ELSE ColLeaf(f, lf, col)
  ELSE IF lf.cmpk = "fn2" THEN St("err")             \* two-argument predicate needs a column argument
  ELSE IF lf.cmpk = "fn1" THEN
       IF lf.argt # FnType(col.typ) \/ lf.rest # "bool" \/ lf.arity # 1 THEN St("err")
       ELSE LET t == [r \in 1..f.n |-> Lookup1(lf.tbl, col.cells[r])] IN
            IF \E r \in 1..f.n : t[r] = <<2>> THEN St("miss")
            ELSE OkT([r \in 1..f.n |-> t[r] = <<0, 0, 1>>])
  ELSE CASE col.typ = "int" -> IntLeaf(f, lf, col)
         [] col.typ = "float" -> FloatLeaf(f, lf, col)
         [] col.typ = "bool" -> BoolLeaf(f, lf, col)
         [] col.typ = "string" -> StringLeaf(f, lf, col)
         [] col.typ = "enum" -> EnumLeaf(f, lf, col)

(***************************** clause trees *****************************)
\* Combine statuses: an invalid node anywhere makes the whole filter an error.
Worst(sts) == IF "miss" \in sts THEN "miss" ELSE IF "err" \in sts THEN "err"
              ELSE IF "unspec" \in sts THEN "unspec" ELSE "ok"

RECURSIVE ClauseTruth(_, _)
ClauseTruth(f, c) ==
  CASE c.k = "leaf" ->
         LET lt == LeafTruth(f, c) IN
         IF lt.st # "ok" THEN lt
         ELSE OkT([r \in 1..f.n |-> IF c.inv = 1 THEN ~lt.t[r] ELSE lt.t[r]])
    [] c.k = "null" -> OkT(AllRows(f, TRUE))
    [] c.k = "not" ->
         LET s == ClauseTruth(f, c.subs[1]) IN
         IF s.st # "ok" THEN s ELSE OkT([r \in 1..f.n |-> ~s.t[r]])
    [] c.k \in {"and", "or"} ->
         IF Len(c.subs) = 0 THEN St("err")            \* empty And / Or is rejected
         ELSE LET ss == [i \in 1..Len(c.subs) |-> ClauseTruth(f, c.subs[i])]
                  w == Worst({ss[i].st : i \in 1..Len(ss)})
              IN IF w # "ok" THEN St(w)
                 ELSE IF c.k = "and" THEN OkT([r \in 1..f.n |-> \A i \in 1..Len(ss) : ss[i].t[r]])
                 ELSE OkT([r \in 1..f.n |-> \E i \in 1..Len(ss) : ss[i].t[r]])

\* Filter keeps exactly the satisfying rows, in frame order
FilterSem(f, c) ==
  IF f.err THEN f
  ELSE LET ct == ClauseTruth(f, c) IN
       CASE ct.st = "err" -> ErrFrame
         [] ct.st = "unspec" -> Unspec
         [] ct.st = "miss" -> [err |-> FALSE, n |-> 1, cols |-> <<PlainCol(<<>>, "miss", <<<<2>>>>)>>]
         [] OTHER -> TakeRows(f, SelectSeq(Iota(f.n), LAMBDA r : ct.t[r]))
=============================================================================
