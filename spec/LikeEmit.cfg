SPECIFICATION Spec
CONSTANTS
  MaxCard = 255
  MaxPat = 3
  MaxCell = 0
  PinGreedyTrim = FALSE
  PinAnchor = FALSE
  Emit = TRUE
INVARIANTS Refines EmitScn
CHECK_DEADLOCK FALSE
