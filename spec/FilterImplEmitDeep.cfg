SPECIFICATION Spec
CONSTANTS
  MaxRows = 3
  Depth2 = FALSE
  PinD2 = FALSE
  PinD3 = FALSE
  Emit = TRUE
INVARIANTS Refines EmitScn
CHECK_DEADLOCK FALSE
