SPECIFICATION Spec
CONSTANTS
  PinD5 = FALSE
  PinD14 = TRUE
  Deep = FALSE
  Emit = FALSE
INVARIANT Refines
CHECK_DEADLOCK FALSE
