SPECIFICATION Spec
CONSTANTS
  N = 3
  Keys = {0, 1, 2, 3}
  H = {0, 1, 2, 3}
  MinExp = 1
  ConsistentHash = TRUE
  Emit = TRUE
INVARIANTS NoDuplicateKeys EveryRowHasASlot GroupByIsPartition GroupsInFrameOrder DistinctIsTransversal LoadBounded EmitScn
CHECK_DEADLOCK FALSE
