SPECIFICATION Spec
CONSTANTS
  N = 5
  Keys = {0, 1, 2, 3}
  H = {0, 1, 2, 3}
  MinExp = 1
  ConsistentHash = TRUE
  Emit = FALSE
INVARIANTS NoDuplicateKeys EveryRowHasASlot GroupByIsPartition GroupsInFrameOrder DistinctIsTransversal LoadBounded
CHECK_DEADLOCK FALSE
