SPECIFICATION Spec
INVARIANTS Agrees NonVacuous
CHECK_DEADLOCK FALSE
