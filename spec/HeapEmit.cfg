SPECIFICATION Spec
CONSTANTS
  Depth = 3
  SortInPlace = FALSE
  SetColumnInPlace = FALSE
  FilterInPlace = FALSE
  Emit = TRUE
INVARIANTS Persistent EmitScn
PROPERTY StoresImmutable
CHECK_DEADLOCK FALSE
