-------------------------------- MODULE Heap --------------------------------
(***************************************************************************)
(* Mechanism model of frame derivation (C01, also C06/C11): what a QFrame  *)
(* physically is - a header object (column slice + name map), a reference   *)
(* into an index backing array (offset, length; capacity retained by        *)
(* Slice) and shared immutable column stores - and how every operation      *)
(* builds its result: withIndex (share header), index.Filter (allocate),    *)
(* Sort (index.Copy then sort the COPY), Slice (same array), Select / Drop  *)
(* (new header, same index), setColumn (new header), Apply (allocate a      *)
(* store of the PHYSICAL length, write at the index positions only).        *)
(*                                                                         *)
(* Persistent: whatever sequence of operations is applied to whichever      *)
(* members of the growing family, the logical content of every member stays *)
(* what it was at its birth.  The switches model three in-place variants    *)
(* (realistic slips); each must violate Persistent.                         *)
(***************************************************************************)
EXTENDS Integers, Sequences, TLC, SequencesExt, FiniteSets, Json

CONSTANTS Depth,
          SortInPlace,        \* Sort without index.Copy()
          SetColumnInPlace,   \* setColumn writes the shared header when overwriting
          FilterInPlace,      \* index.Filter builds the result in ix[:0] of the parent's array
          Emit

VARIABLES arrays,   \* index backing arrays: Seq(Seq(Nat)), length = capacity
          hdrs,     \* header objects ([]namedColumn + map): Seq(Seq([name, store]))
          stores,   \* column data, physical length
          frames,   \* Seq([hdr, arr, off, len])
          snap,     \* ghost: Logical(frame) at birth
          hist      \* ghost: the operations applied (scenario for replay)
vars == <<arrays, hdrs, stores, frames, snap, hist>>

IxIn(f, ar) == SubSeq(ar[f.arr], f.off + 1, f.off + f.len)       \* physical positions, 0-based values
Ix(f) == IxIn(f, arrays)
LogicalIn(f, ar, hd, st) == [c \in 1..Len(hd[f.hdr]) |->
                 [name |-> hd[f.hdr][c].name,
                  cells |-> [r \in 1..f.len |-> st[hd[f.hdr][c].store][IxIn(f, ar)[r] + 1]]]]
Logical(f) == LogicalIn(f, arrays, hdrs, stores)
Col(f, name) == LET c == SelectInSeq(hdrs[f.hdr], LAMBDA h : h.name = name) IN hdrs[f.hdr][c].store
Has(f, name) == SelectInSeq(hdrs[f.hdr], LAMBDA h : h.name = name) # 0

Init ==
  /\ stores = << <<2, 1, 2>>, <<1, 2, 0>> >>
  /\ hdrs = << << [name |-> "A", store |-> 1], [name |-> "B", store |-> 2] >> >>
  /\ arrays = << <<0, 1, 2>> >>
  /\ frames = << [hdr |-> 1, arr |-> 1, off |-> 0, len |-> 3] >>
  /\ snap = << << [name |-> "A", cells |-> <<2, 1, 2>>], [name |-> "B", cells |-> <<1, 2, 0>>] >> >>
  /\ hist = <<>>

(* ---- index-changing operations ---- *)
Filter(f, name) ==        \* keep rows with cell > 1
  /\ Has(f, name)
  /\ LET kept == SelectSeq(Ix(f), LAMBDA p : stores[Col(f, name)][p + 1] > 1) IN
     IF FilterInPlace
     THEN /\ arrays' = [arrays EXCEPT ![f.arr] = [k \in 1..Len(@) |->
                            IF k > f.off /\ k <= f.off + Len(kept) THEN kept[k - f.off] ELSE @[k]]]
          /\ frames' = Append(frames, [f EXCEPT !.len = Len(kept)])
     ELSE /\ arrays' = Append(arrays, kept)
          /\ frames' = Append(frames, [f EXCEPT !.arr = Len(arrays) + 1, !.off = 0, !.len = Len(kept)])
  /\ UNCHANGED <<hdrs, stores>>

SortedIx(f, name) == SortSeq(Ix(f), LAMBDA p, q : stores[Col(f, name)][p + 1] < stores[Col(f, name)][q + 1]
                                              \/ (stores[Col(f, name)][p + 1] = stores[Col(f, name)][q + 1] /\ p < q))
Sort(f, name) ==
  /\ Has(f, name)
  /\ LET s == SortedIx(f, name) IN
     IF SortInPlace
     THEN /\ arrays' = [arrays EXCEPT ![f.arr] = [k \in 1..Len(@) |->
                            IF k > f.off /\ k <= f.off + f.len THEN s[k - f.off] ELSE @[k]]]
          /\ frames' = Append(frames, f)
     ELSE /\ arrays' = Append(arrays, s)                         \* index.Copy() then sort the copy
          /\ frames' = Append(frames, [f EXCEPT !.arr = Len(arrays) + 1, !.off = 0])
  /\ UNCHANGED <<hdrs, stores>>

Slice(f, a, b) ==         \* shares the backing array, capacity retained
  /\ a <= b /\ b <= f.len
  /\ frames' = Append(frames, [f EXCEPT !.off = f.off + a, !.len = b - a])
  /\ UNCHANGED <<arrays, hdrs, stores>>

(* ---- column-changing operations ---- *)
SetColumn(f, name, st) ==
  LET h == hdrs[f.hdr]
      c == SelectInSeq(h, LAMBDA x : x.name = name)
  IN IF c # 0 /\ SetColumnInPlace
     THEN /\ hdrs' = [hdrs EXCEPT ![f.hdr][c].store = st]
          /\ frames' = Append(frames, f)
     ELSE /\ hdrs' = Append(hdrs, IF c # 0 THEN [h EXCEPT ![c].store = st] ELSE Append(h, [name |-> name, store |-> st]))
          /\ frames' = Append(frames, [f EXCEPT !.hdr = Len(hdrs) + 1])
Apply1(f, dst, src) ==    \* dst[r] = (src[r] + 1) % 3, written at the physical positions of the index only
  /\ Has(f, src)
  /\ LET old == stores[Col(f, src)]
         new == [p \in 1..Len(old) |-> IF \E r \in 1..f.len : Ix(f)[r] + 1 = p THEN (old[p] + 1) % 3 ELSE 0]
     IN /\ stores' = Append(stores, new)
        /\ SetColumn(f, dst, Len(stores) + 1)
  /\ UNCHANGED arrays
CopyCol(f, dst, src) ==   \* Copy: the columns share the store
  /\ Has(f, src) /\ dst # src
  /\ SetColumn(f, dst, Col(f, src))
  /\ UNCHANGED <<arrays, stores>>
Select(f, names) ==
  /\ \A i \in 1..Len(names) : Has(f, names[i])
  /\ hdrs' = Append(hdrs, [i \in 1..Len(names) |-> [name |-> names[i], store |-> Col(f, names[i])]])
  /\ frames' = Append(frames, [f EXCEPT !.hdr = Len(hdrs) + 1])
  /\ UNCHANGED <<arrays, stores>>

Op(k, f) ==
  \/ Filter(f, "A") /\ hist' = Append(hist, [op |-> "filter", recv |-> k - 1, col |-> "A"])
  \/ Filter(f, "B") /\ hist' = Append(hist, [op |-> "filter", recv |-> k - 1, col |-> "B"])
  \/ Sort(f, "A") /\ hist' = Append(hist, [op |-> "sort", recv |-> k - 1, col |-> "A"])
  \/ Sort(f, "B") /\ hist' = Append(hist, [op |-> "sort", recv |-> k - 1, col |-> "B"])
  \/ Slice(f, 0, 2) /\ hist' = Append(hist, [op |-> "slice", recv |-> k - 1, a |-> 0, b |-> 2])
  \/ Slice(f, 1, f.len) /\ hist' = Append(hist, [op |-> "slice", recv |-> k - 1, a |-> 1, b |-> f.len])
  \/ Apply1(f, "A", "B") /\ hist' = Append(hist, [op |-> "apply", recv |-> k - 1, dst |-> "A", src |-> "B"])
  \/ Apply1(f, "C", "A") /\ hist' = Append(hist, [op |-> "apply", recv |-> k - 1, dst |-> "C", src |-> "A"])
  \/ CopyCol(f, "B", "A") /\ hist' = Append(hist, [op |-> "copy", recv |-> k - 1, dst |-> "B", src |-> "A"])
  \/ Select(f, <<"A">>) /\ hist' = Append(hist, [op |-> "select", recv |-> k - 1, cols |-> <<"A">>])
  \/ Select(f, <<"B", "A">>) /\ hist' = Append(hist, [op |-> "select", recv |-> k - 1, cols |-> <<"B", "A">>])
Next == /\ Len(frames) <= Depth
        /\ \E k \in 1..Len(frames) : Op(k, frames[k])
        /\ snap' = Append(snap, LogicalIn(frames'[Len(frames')], arrays', hdrs', stores'))
Spec == Init /\ [][Next]_vars

Persistent == \A k \in 1..Len(frames) : Logical(frames[k]) = snap[k]
\* storage written by a step was allocated by that step
StoresImmutable == [][\A k \in 1..Len(stores) : stores'[k] = stores[k]]_vars

(************************* scenario emission: every complete history *************************)
NB(n) == CASE n = "A" -> <<65>> [] n = "B" -> <<66>> [] n = "C" -> <<67>>
ScnStep(h) ==
  CASE h.op = "filter" -> [op |-> "Filter", recv |-> h.recv, clause |-> [k |-> "leaf", col |-> NB(h.col), cmpk |-> "str", cmp |-> ">", arg |-> [t |-> "int", i |-> 1]]]
    [] h.op = "sort" -> [op |-> "Sort", recv |-> h.recv, orders |-> << [col |-> NB(h.col)] >>]
    [] h.op = "slice" -> [op |-> "Slice", recv |-> h.recv, a |-> h.a, b |-> h.b]
    [] h.op = "apply" -> [op |-> "Apply", recv |-> h.recv, instrs |-> << [fn |-> [k |-> "fn1", sym |-> "incI"], dst |-> NB(h.dst), src1 |-> NB(h.src)] >>]
    [] h.op = "copy" -> [op |-> "Copy", recv |-> h.recv, dst |-> NB(h.dst), src |-> NB(h.src)]
    [] h.op = "select" -> [op |-> "Select", recv |-> h.recv, cols |-> [j \in 1..Len(h.cols) |-> NB(h.cols[j])]]
EmitScn == (Emit /\ Len(frames) = Depth + 1) =>
  PrintT(<<"SCN", ToJson([steps |-> << [op |-> "New", recv |-> -1, hasorder |-> TRUE, colorder |-> <<<<65>>, <<66>>>>,
                                        data |-> << [name |-> <<65>>, kind |-> "int", ints |-> <<2, 1, 2>>],
                                                    [name |-> <<66>>, kind |-> "int", ints |-> <<1, 2, 0>>] >>] >>
                                    \o [j \in 1..Len(hist) |-> ScnStep(hist[j])]])>>)
=============================================================================
