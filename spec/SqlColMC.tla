------------------------------ MODULE SqlColMC ------------------------------
(***************************************************************************)
(* Mechanism model for C19 (ReadSQL): the scanner state of                 *)
(* internal/io/sql/column.go, one action per call of Column.Scan.          *)
(*                                                                         *)
(*   kind   the type inferred from the first non-NULL value ("none" before)*)
(*   nulls  NULLs counted before the type is known                         *)
(*   ints, floats, bools, strings   the four data slices; Data() is the    *)
(*          slice the kind points to                                       *)
(*                                                                         *)
(* Float and String back-fill the counted NULLs (NaN / nil) when they fix  *)
(* the type, Int and Bool do not; a NULL after the type is known is NaN /  *)
(* nil for float / string and an error otherwise; a value of another type  *)
(* than the inferred one goes to its own slice (the pointer is not moved). *)
(*                                                                         *)
(* Refines: wherever the property speaks (SqlColumn of Sql.tla: one type   *)
(* per column, NULLs only in text or float columns, not entirely NULL) the *)
(* slice handed to New has one cell per scanned row, in order, NULLs as    *)
(* NaN / null string; an entirely NULL column hands over nothing (New      *)
(* reports it).  Leaving out the back-fill, or getting its count wrong,    *)
(* must fail.  Every specified history of up to MaxRows values is run on   *)
(* the real ReadSQL through the recording driver (EmitScn), next to a row  *)
(* number column, so that a column of the wrong length cannot pass.        *)
(***************************************************************************)
EXTENDS Integers, Sequences, FiniteSets, TLC, Json

CONSTANTS MaxRows, PinNoBackfill, PinBackfillShort, Emit

Tags == {"null", "int", "float", "bool", "string", "bytes"}
KindOf(t) == IF t = "bytes" THEN "string" ELSE t
CellOf(t) == CASE t = "int" -> "i7" [] t = "float" -> "f1.5" [] t = "bool" -> "bT" [] t = "string" -> "s:s" [] t = "bytes" -> "s:t"
NullOf(k) == IF k = "float" THEN "NaN" ELSE "nil"
Rep(x, n) == [i \in 1..n |-> x]

VARIABLES kind, nulls, ints, floats, bools, strings, failed, scanned
vars == <<kind, nulls, ints, floats, bools, strings, failed, scanned>>

Init == /\ kind = "none" /\ nulls = 0 /\ ints = <<>> /\ floats = <<>> /\ bools = <<>> /\ strings = <<>>
        /\ failed = FALSE /\ scanned = <<>>

Backfill(k) == IF PinNoBackfill THEN <<>> ELSE Rep(NullOf(k), IF PinBackfillShort /\ nulls > 0 THEN nulls - 1 ELSE nulls)

ScanNull ==
  IF kind = "none" THEN nulls' = nulls + 1 /\ UNCHANGED <<kind, ints, floats, bools, strings, failed>>
  ELSE IF kind = "float" THEN floats' = Append(floats, "NaN") /\ UNCHANGED <<kind, nulls, ints, bools, strings, failed>>
  ELSE IF kind = "string" THEN strings' = Append(strings, "nil") /\ UNCHANGED <<kind, nulls, ints, floats, bools, failed>>
  ELSE failed' = TRUE /\ UNCHANGED <<kind, nulls, ints, floats, bools, strings>>        \* non-nullable type

ScanInt == /\ kind' = IF kind = "none" THEN "int" ELSE kind
           /\ ints' = Append(ints, CellOf("int")) /\ UNCHANGED <<nulls, floats, bools, strings, failed>>
ScanBool == /\ kind' = IF kind = "none" THEN "bool" ELSE kind
            /\ bools' = Append(bools, CellOf("bool")) /\ UNCHANGED <<nulls, ints, floats, strings, failed>>
ScanFloat ==
  IF kind = "none"
  THEN kind' = "float" /\ floats' = Backfill("float") \o <<CellOf("float")>> /\ nulls' = 0 /\ UNCHANGED <<ints, bools, strings, failed>>
  ELSE floats' = Append(floats, CellOf("float")) /\ UNCHANGED <<kind, nulls, ints, bools, strings, failed>>
ScanString(t) ==
  IF kind = "none"
  THEN kind' = "string" /\ strings' = Backfill("string") \o <<CellOf(t)>> /\ nulls' = 0 /\ UNCHANGED <<ints, floats, bools, failed>>
  ELSE strings' = Append(strings, CellOf(t)) /\ UNCHANGED <<kind, nulls, ints, floats, bools, failed>>

Scan(t) == /\ ~failed /\ Len(scanned) < MaxRows
           /\ scanned' = Append(scanned, t)
           /\ CASE t = "null" -> ScanNull [] t = "int" -> ScanInt [] t = "bool" -> ScanBool
                [] t = "float" -> ScanFloat [] OTHER -> ScanString(t)

Next == \E t \in Tags : Scan(t)
Spec == Init /\ [][Next]_vars

Data == CASE kind = "int" -> ints [] kind = "float" -> floats [] kind = "bool" -> bools [] kind = "string" -> strings
          [] OTHER -> <<>>

(****************** what the property says about one column (Sql.tla SqlColumn, coercion 0) ******************)
Decl(h) ==
  LET kinds == {KindOf(h[r]) : r \in {x \in 1..Len(h) : h[x] # "null"}} IN
  IF kinds = {} THEN [st |-> "err"]
  ELSE IF Cardinality(kinds) > 1 THEN [st |-> "unspec"]
  ELSE LET k == CHOOSE x \in kinds : TRUE IN
       IF k \in {"int", "bool"} /\ \E r \in 1..Len(h) : h[r] = "null" THEN [st |-> "unspec"]
       ELSE [st |-> "ok", k |-> k, cells |-> [r \in 1..Len(h) |-> IF h[r] = "null" THEN NullOf(k) ELSE CellOf(h[r])]]

Refines == Len(scanned) >= 1 =>
  LET d == Decl(scanned) IN
  CASE d.st = "ok" -> ~failed /\ kind = d.k /\ Data = d.cells
    [] d.st = "err" -> ~failed /\ kind = "none" /\ Data = <<>>       \* nothing to hand to New: reported there
    [] OTHER -> TRUE

\* the counter is used up by the back-fill; one slice only grows where the property speaks
CounterSpent == kind \in {"float", "string"} => nulls = 0
OneSlice == (Len(scanned) >= 1 /\ Decl(scanned).st = "ok") =>
  Len(ints) + Len(floats) + Len(bools) + Len(strings) = Len(Data)
\* an error is raised only for a NULL in a column inferred as int or bool
FailsOnlyOnNull == failed => (kind \in {"int", "bool"} /\ scanned[Len(scanned)] = "null")

(****************** scenario emission ******************)
ValOf(t) == CASE t = "null" -> [t |-> "null"] [] t = "int" -> [t |-> "int", i |-> 7] [] t = "float" -> [t |-> "float", f |-> "1.5"]
              [] t = "bool" -> [t |-> "bool", b |-> TRUE] [] t = "string" -> [t |-> "string", s |-> <<115>>]
              [] OTHER -> [t |-> "bytes", s |-> <<116>>]
EmitScn == (Emit /\ Len(scanned) >= 1 /\ Decl(scanned).st # "unspec") =>
  PrintT(<<"SCN", ToJson([steps |-> <<
     [op |-> "ReadSQL", recv |-> -1, cols |-> << <<118>>, <<110>> >>,
      rs |-> [r \in 1..Len(scanned) |-> << ValOf(scanned[r]), [t |-> "int", i |-> r] >>], sql |-> [incr |-> FALSE]],
     [op |-> "ReadSQL", recv |-> -1, cols |-> << <<118>> >>,
      rs |-> [r \in 1..Len(scanned) |-> << ValOf(scanned[r]) >>], sql |-> [incr |-> FALSE]] >>])>>)
=============================================================================
