SPECIFICATION Spec
CONSTANTS
  N = 3
  Keys = {0, 1, 2, 3}
  H = {0, 1, 2, 3}
  MinExp = 1
  ConsistentHash = FALSE
  Emit = FALSE
INVARIANTS NoDuplicateKeys EveryRowHasASlot GroupByIsPartition GroupsInFrameOrder DistinctIsTransversal LoadBounded
CHECK_DEADLOCK FALSE
