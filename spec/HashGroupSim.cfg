SPECIFICATION Spec
CONSTANTS
  N = 14
  Keys = {0, 1, 2, 3, 4, 5, 6, 7, 8, 9}
  H = {0, 1, 8, 9, 16, 17, 24}
  MinExp = 3
  ConsistentHash = TRUE
  Emit = TRUE
INVARIANTS NoDuplicateKeys EveryRowHasASlot GroupByIsPartition GroupsInFrameOrder DistinctIsTransversal LoadBounded EmitScn
CHECK_DEADLOCK FALSE
