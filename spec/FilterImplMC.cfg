SPECIFICATION Spec
CONSTANTS
  MaxRows = 2
  Depth2 = TRUE
  PinD2 = FALSE
  PinD3 = FALSE
  Emit = FALSE
INVARIANT Refines
CHECK_DEADLOCK FALSE
