------------------------------- MODULE Frame -------------------------------
(***************************************************************************)
(* Abstract frames: what a user can observe of a QFrame, plus the hidden   *)
(* state the documented behaviour depends on (enum value tables).          *)
(*                                                                         *)
(*   frame  = [err : BOOLEAN, n : Int, cols : Seq(column)]                 *)
(*   column = [name : bytes, typ : STRING, cells : Seq(cell),              *)
(*             vals : Seq(bytes), strict : BOOLEAN]                        *)
(*                                                                         *)
(* Rows are 1..n in frame order.  A frame with err = TRUE exposes nothing  *)
(* (Len() = -1).  Unspec is the result of a call whose outcome no property *)
(* or document fixes (DESIGN.md 5.4): anything but a panic is accepted.    *)
(***************************************************************************)
EXTENDS Values

ErrFrame == [err |-> TRUE, n |-> -1, cols |-> <<>>]
Unspec   == [err |-> FALSE, n |-> -3, cols |-> <<>>]
IsUnspec(f) == f.n = -3
EmptyFrame == [err |-> FALSE, n |-> 0, cols |-> <<>>]

MkCol(name, typ, cells, vals, strict) ==
  [name |-> name, typ |-> typ, cells |-> cells, vals |-> vals, strict |-> strict]
PlainCol(name, typ, cells) == MkCol(name, typ, cells, <<>>, FALSE)

Names(f) == [i \in 1..Len(f.cols) |-> f.cols[i].name]
Types(f) == [i \in 1..Len(f.cols) |-> f.cols[i].typ]
ColIx(f, name) == SelectInSeq(f.cols, LAMBDA c : c.name = name)   \* 0 if absent
HasCol(f, name) == ColIx(f, name) # 0
ColOf(f, name) == f.cols[ColIx(f, name)]
CellAt(f, name, r) == ColOf(f, name).cells[r]

\* the type functions see: enum columns take string functions
FnType(typ) == IF typ = "enum" THEN "string" ELSE typ

(***************************************************************************)
(* Column names: CheckName of internal/strings/name.go as documented in    *)
(* the error messages: not empty, not fully quoted, no leading $.          *)
(***************************************************************************)
NameOK(nm) ==
  /\ Len(nm) > 0
  /\ ~(Len(nm) > 2 /\ ((nm[1] = 39 /\ nm[Len(nm)] = 39) \/ (nm[1] = 34 /\ nm[Len(nm)] = 34)))
  /\ nm[1] # 36

(***************************************************************************)
(* Observation (the projection function of the conformance harness):       *)
(* Len, ColumnNames, ColumnTypes, and every cell through the typed views.  *)
(***************************************************************************)
\* the name map of the frame (ColumnTypeMap, Contains) describes the same columns as the column list
TmapOK(f, o) ==
  "tmap" \notin DOMAIN o \/
  /\ Len(o.tmap) = Len(f.cols)
  /\ \A c \in 1..Len(f.cols) : \E k \in 1..Len(o.tmap) : o.tmap[k].name = f.cols[c].name /\ o.tmap[k].typ = f.cols[c].typ
  /\ o.contains = 1

ObsMatches(f, o) ==
  IF f.err THEN o.len = -1
  ELSE /\ o.len = f.n
       /\ TmapOK(f, o)
       /\ o.names = Names(f)
       /\ o.types = Types(f)
       /\ Len(o.cols) = Len(f.cols)
       /\ \A c \in 1..Len(f.cols) : o.cols[c] = f.cols[c].cells

\* keep the rows at the given positions (a sequence of row numbers), in that order
TakeRows(f, pos) ==
  [f EXCEPT !.n = Len(pos),
            !.cols = [c \in 1..Len(f.cols) |->
                        [f.cols[c] EXCEPT !.cells = [j \in 1..Len(pos) |-> f.cols[c].cells[pos[j]]]]]]

\* replace a column in position, or append a new one last (setColumn)
SetColumn(f, col) ==
  LET i == ColIx(f, col.name) IN
  IF i # 0 THEN [f EXCEPT !.cols[i] = col]
  ELSE [f EXCEPT !.cols = Append(f.cols, col)]

Row(f, r) == [c \in 1..Len(f.cols) |-> f.cols[c].cells[r]]

(***************************************************************************)
(* Equals: same names in the same order, same types, pairwise equal cells  *)
(* (null = null, NaN = NaN, enum cells by string value).                   *)
(***************************************************************************)
SameType(a, b) == a = b \/ (a \in {"string", "enum"} /\ b \in {"string", "enum"} /\ a = b)
EqualsSem(a, b) ==
  /\ a.n = b.n
  /\ Len(a.cols) = Len(b.cols)
  /\ \A c \in 1..Len(a.cols) :
       /\ a.cols[c].name = b.cols[c].name
       /\ a.cols[c].typ = b.cols[c].typ
       /\ \A r \in 1..a.n : CellEq(a.cols[c].cells[r], b.cols[c].cells[r])
=============================================================================
