------------------------------ MODULE ErrMonad ------------------------------
(***************************************************************************)
(* C10 as a state machine over the specification's own operators: a chain  *)
(* of operations, valid or not, applied to the current frame.              *)
(*   Sticky        once a step has produced Err every later frame of the   *)
(*                 chain is the error frame (Len() = -1), whatever the     *)
(*                 operation and its arguments;                            *)
(*   ErrIffInvalid a step from an error-free frame yields Err exactly when *)
(*                 the operation instance is one of the invalid ones;      *)
(*   GrouperPasses GroupBy / Aggregate / QFrames pass the error on.        *)
(* Every complete chain is emitted as a scenario and executed on the real  *)
(* library (with call-counting callbacks: CallsOK in Judge.tla).           *)
(***************************************************************************)
EXTENDS ApplyEval, Json

CONSTANTS DepthE, Emit

A == <<65>>  S == <<83>>  Z == <<90>>  NOSUCH == <<110, 111>>
F0 == [err |-> FALSE, n |-> 2, cols |-> << PlainCol(A, "int", <<IntCell(1), IntCell(2)>>),
                                             PlainCol(S, "string", <<MkCell(<<97>>), NullCell>>) >>]

NilArg == [t |-> "nil", c |-> NullCell, ci |-> NullCell, s |-> <<>>, l |-> <<>>, li |-> <<>>, lt |-> <<>>]
IntArg(n) == [NilArg EXCEPT !.t = "int", !.c = IntCell(n), !.ci = IntCell(n)]
StrArg(b) == [NilArg EXCEPT !.t = "string", !.c = MkCell(b)]
LeafC(col, cmp, arg) == [k |-> "leaf", col |-> col, cmpk |-> "str", cmp |-> cmp, arg |-> arg, inv |-> 0,
                         tbl |-> <<>>, argt |-> "", rest |-> "", arity |-> 0, conv |-> <<>>, rx |-> <<>>]
IncFn == [k |-> "fn1", sym |-> "incI", argt |-> "int", rest |-> "int", v |-> NilArg]
IncTbl == << [sym |-> "incI", argt |-> "int", rest |-> "int",
              rows |-> << <<IntCell(1), IntCell(2)>>, <<IntCell(2), IntCell(3)>>, <<IntCell(3), IntCell(4)>> >>] >>

\* operation instances: [name, valid on F0-shaped frames, semantics, scenario step]
Ops == <<
  [name |-> "filter ok",    bad |-> FALSE],
  [name |-> "filter nocol", bad |-> TRUE],
  [name |-> "filter type",  bad |-> TRUE],
  [name |-> "filter cmp",   bad |-> TRUE],
  [name |-> "and empty",    bad |-> TRUE],
  [name |-> "select ok",    bad |-> FALSE],
  [name |-> "select nocol", bad |-> TRUE],
  [name |-> "slice ok",     bad |-> FALSE],
  [name |-> "slice neg",    bad |-> TRUE],
  [name |-> "slice end",    bad |-> TRUE],
  [name |-> "copy ok",      bad |-> FALSE],
  [name |-> "copy name",    bad |-> TRUE],
  [name |-> "apply ok",     bad |-> FALSE],
  [name |-> "apply type",   bad |-> TRUE],
  [name |-> "rownums ok",   bad |-> FALSE],
  [name |-> "rownums name", bad |-> TRUE] >>

Sem(f, k) ==
  LET nm == Ops[k].name IN
  CASE nm = "filter ok"    -> FilterSem(f, LeafC(A, ">=", IntArg(1)))
    [] nm = "filter nocol" -> FilterSem(f, LeafC(NOSUCH, "=", IntArg(1)))
    [] nm = "filter type"  -> FilterSem(f, LeafC(A, "=", StrArg(<<97>>)))
    [] nm = "filter cmp"   -> FilterSem(f, LeafC(S, "any_bits", StrArg(<<97>>)))
    [] nm = "and empty"    -> FilterSem(f, [k |-> "and", subs |-> <<>>])
    [] nm = "select ok"    -> SelectSem(f, <<S, A>>)
    [] nm = "select nocol" -> SelectSem(f, <<A, NOSUCH>>)
    [] nm = "slice ok"     -> SliceSem(f, 0, Max2(f.n, 0))
    [] nm = "slice neg"    -> SliceSem(f, -1, 1)
    [] nm = "slice end"    -> SliceSem(f, 0, Max2(f.n, 0) + 1)
    [] nm = "copy ok"      -> CopySem(f, Z, A)
    [] nm = "copy name"    -> CopySem(f, <<36, 122>>, A)
    [] nm = "apply ok"     -> ApplySem(f, << [fn |-> IncFn, dst |-> A, src1 |-> A, src2 |-> <<>>] >>, IncTbl)
    [] nm = "apply type"   -> ApplySem(f, << [fn |-> IncFn, dst |-> Z, src1 |-> S, src2 |-> <<>>] >>, IncTbl)
    [] nm = "rownums ok"   -> WithRowNumsSem(f, Z)
    [] nm = "rownums name" -> WithRowNumsSem(f, <<>>)

VARIABLES cur, hadErr, hist
vars == <<cur, hadErr, hist>>
Init == cur = F0 /\ hadErr = FALSE /\ hist = <<>>
Next == /\ Len(hist) < DepthE
        /\ \E k \in 1..Len(Ops) :
             /\ cur' = Sem(cur, k)
             /\ hadErr' = (hadErr \/ cur'.err)
             /\ hist' = Append(hist, k)
Spec == Init /\ [][Next]_vars

Sticky == hadErr => (cur.err /\ cur.n = -1)
\* the columns A (int) and S (string) survive every valid operation of the set except "select", which keeps them too
ErrIffInvalid == [][\A k \in 1..Len(Ops) : (~cur.err /\ hist' = Append(hist, k)) => (cur'.err = Ops[k].bad)]_vars
GrouperPasses == cur.err => (AggregateSem(ErrGrouper, <<>>, <<>>).err /\ QFramesSem(ErrGrouper) = <<>>)

(************************* scenario emission *************************)
ScnVal(n) == [t |-> "int", i |-> n]
ScnStep(k, recv) ==
  LET nm == Ops[k].name IN
  CASE nm = "filter ok"    -> [op |-> "Filter", recv |-> recv, clause |-> [k |-> "leaf", col |-> A, cmpk |-> "str", cmp |-> ">=", arg |-> ScnVal(1)]]
    [] nm = "filter nocol" -> [op |-> "Filter", recv |-> recv, clause |-> [k |-> "leaf", col |-> NOSUCH, cmpk |-> "str", cmp |-> "=", arg |-> ScnVal(1)]]
    [] nm = "filter type"  -> [op |-> "Filter", recv |-> recv, clause |-> [k |-> "leaf", col |-> A, cmpk |-> "str", cmp |-> "=", arg |-> [t |-> "string", s |-> <<97>>]]]
    [] nm = "filter cmp"   -> [op |-> "Filter", recv |-> recv, clause |-> [k |-> "leaf", col |-> S, cmpk |-> "str", cmp |-> "any_bits", arg |-> [t |-> "string", s |-> <<97>>]]]
    [] nm = "and empty"    -> [op |-> "Filter", recv |-> recv, clause |-> [k |-> "and"]]
    [] nm = "select ok"    -> [op |-> "Select", recv |-> recv, cols |-> <<S, A>>]
    [] nm = "select nocol" -> [op |-> "Select", recv |-> recv, cols |-> <<A, NOSUCH>>]
    [] nm = "slice ok"     -> [op |-> "Slice", recv |-> recv, a |-> 0, b |-> 2]
    [] nm = "slice neg"    -> [op |-> "Slice", recv |-> recv, a |-> -1, b |-> 1]
    [] nm = "slice end"    -> [op |-> "Slice", recv |-> recv, a |-> 0, b |-> 3]
    [] nm = "copy ok"      -> [op |-> "Copy", recv |-> recv, dst |-> Z, src |-> A]
    [] nm = "copy name"    -> [op |-> "Copy", recv |-> recv, dst |-> <<36, 122>>, src |-> A]
    [] nm = "apply ok"     -> [op |-> "Apply", recv |-> recv, instrs |-> << [fn |-> [k |-> "fn1", sym |-> "incI"], dst |-> A, src1 |-> A] >>]
    [] nm = "apply type"   -> [op |-> "Apply", recv |-> recv, instrs |-> << [fn |-> [k |-> "fn1", sym |-> "incI"], dst |-> Z, src1 |-> S] >>]
    [] nm = "rownums ok"   -> [op |-> "WithRowNums", recv |-> recv, dst |-> Z]
    [] nm = "rownums name" -> [op |-> "WithRowNums", recv |-> recv]
EmitScn == (Emit /\ Len(hist) = DepthE) =>
  PrintT(<<"SCN", ToJson([steps |-> << [op |-> "New", recv |-> -1, hasorder |-> TRUE, colorder |-> <<A, S>>,
                                        data |-> << [name |-> A, kind |-> "int", ints |-> <<1, 2>>],
                                                    [name |-> S, kind |-> "string", strs |-> << <<97>>, <<0>> >>] >>] >>
                                    \o [j \in 1..Len(hist) |-> ScnStep(hist[j], j - 1)]
                                    \o << [op |-> "GroupBy", recv |-> Len(hist), cols |-> <<A>>],
                                          [op |-> "Aggregate", recv |-> 0, aggs |-> << [fn |-> [k |-> "builtin", sym |-> "count"], col |-> S] >>],
                                          [op |-> "ToCSV", recv |-> Len(hist)] >>])>>)
=============================================================================
