SPECIFICATION Spec
CONSTANTS
  MaxCard = 255
  MaxRowsW = 2
  MaxColsW = 2
  Emit = FALSE
INVARIANT RenderInverse
CHECK_DEADLOCK FALSE
