------------------------------- MODULE EnumMC -------------------------------
(***************************************************************************)
(* Mechanism model of the enum column factory (C17), at a cardinality      *)
(* limit scaled down to MaxCard (the code: 255, the code of null).         *)
(*                                                                         *)
(* The factory holds the value table `values`, the flag `strict` (the table*)
(* was declared) and the codes appended so far; code MaxCard means null.   *)
(* A cell is appended by AppendString / AppendByteString (strings from New,*)
(* ReadJSON, ReadCSV), AppendNil, or - for a constant column - through      *)
(* enumVal + AppendEnum.  An unseen string is refused when the factory is  *)
(* strict, or when the table already holds MaxCard entries; otherwise it   *)
(* gets the next code.                                                     *)
(*                                                                         *)
(*   Decodes   every appended cell reads back as the string appended (no   *)
(*             value is reported as another string or as null);            *)
(*   Refines   after the whole input, failure and the resulting column     *)
(*             (cells, value table, strictness) are those of EnumCol in    *)
(*             Ops.tla - the abstract construction the trace specification *)
(*             uses;                                                       *)
(*   TableOK   the table has no duplicates, at most MaxCard entries, and a *)
(*             strict table is the declared one.                           *)
(* PinLimit models the off-by-one `len(values) > maxCardinality` (the      *)
(* MaxCard+1st value receives the code of null), PinConst the constant     *)
(* path without the strict check; both must violate an invariant.          *)
(* Every input (sequence of cells x declared table) is emitted and built   *)
(* on the real library through New, ReadJSON and ReadCSV.                  *)
(***************************************************************************)
EXTENDS Ops, Json

CONSTANTS MaxLenE, NSym, PinLimit, PinConst, Emit

V(i) == <<118, 48 + i>>                         \* "v0", "v1", ...
Syms == {V(i) : i \in 0..(NSym - 1)}            \* MC: one more distinct value than the limit
CellSyms == {NullCell} \cup {MkCell(s) : s \in Syms}
Tables == {<<>>, <<V(1), V(0)>>, <<V(2), V(0), V(1)>>}

VARIABLES input, declared, const,      \* the cells to append; the declared table; built as a constant column?
          values, codes, failed, k      \* factory state; k = cells consumed
vars == <<input, declared, const, values, codes, failed, k>>

Strict == Len(declared) > 0
NullCode == MaxCard

Init == /\ input = <<>> /\ declared = <<>> /\ const = FALSE
        /\ values = <<>> /\ codes = <<>> /\ failed = FALSE /\ k = -1

Choose == /\ k = -1
          /\ \E n \in 0..MaxLenE, d \in Tables, c \in BOOLEAN :
               /\ declared' = d /\ const' = c
               /\ input' \in (IF c THEN {[i \in 1..n |-> x] : x \in CellSyms} ELSE [1..n -> CellSyms])
               /\ values' = d
          /\ codes' = <<>> /\ failed' = FALSE /\ k' = 0

\* one cell
AppendCell ==
  /\ k >= 0 /\ k < Len(input) /\ ~failed
  /\ k' = k + 1 /\ UNCHANGED <<input, declared, const>>
  /\ LET c == input[k + 1]  key == KeyOf(c)  r == RankOf(values, key) IN
     IF IsNull(c) THEN codes' = Append(codes, NullCode) /\ UNCHANGED <<values, failed>>
     ELSE IF r # 0 THEN codes' = Append(codes, r - 1) /\ UNCHANGED <<values, failed>>
     ELSE IF Strict /\ ~(const /\ PinConst) THEN failed' = TRUE /\ UNCHANGED <<values, codes>>
     ELSE IF (IF PinLimit THEN Len(values) > MaxCard ELSE Len(values) >= MaxCard)
          THEN failed' = TRUE /\ UNCHANGED <<values, codes>>
     ELSE values' = Append(values, key) /\ codes' = Append(codes, Len(values)) /\ UNCHANGED failed

Next == Choose \/ AppendCell
Spec == Init /\ [][Next]_vars

Decode(code) == IF code = NullCode THEN NullCell ELSE MkCell(values[code + 1])
Decodes == \A i \in 1..Len(codes) : Decode(codes[i]) = input[i]
TableOK == /\ ~HasDup(values) /\ Len(values) <= MaxCard
           /\ (Strict => values = declared)
Done == k >= 0 /\ (failed \/ k = Len(input))
Refines == Done =>
  LET abs == EnumCol(<<69>>, input, declared) IN
  IF failed THEN ~abs.ok
  ELSE /\ abs.ok
       /\ abs.col.cells = [i \in 1..Len(codes) |-> Decode(codes[i])]
       /\ abs.col.vals = values
       /\ abs.col.strict = Strict

(************************* scenario emission *************************)
E == <<69>>  A == <<65>>
StrOf(c) == IF IsNull(c) THEN <<0>> ELSE KeyOf(c)
Digit(i) == <<48 + i>>
CsvDoc == <<69, 44, 65, 10>> \o FlattenSeq([i \in 1..Len(input) |-> (IF IsNull(input[i]) THEN <<>> ELSE KeyOf(input[i])) \o <<44>> \o Digit(i) \o <<10>>])
JsonDoc == <<91>> \o FlattenSeq([i \in 1..Len(input) |->
              (IF i > 1 THEN <<44>> ELSE <<>>) \o <<123, 34, 69, 34, 58>>
              \o (IF IsNull(input[i]) THEN <<110, 117, 108, 108>> ELSE <<34>> \o KeyOf(input[i]) \o <<34>>)
              \o <<44, 34, 65, 34, 58>> \o Digit(i) \o <<125>>]) \o <<93>>
Enums == << [name |-> E, vals |-> declared] >>
EmitScn == (Emit /\ Done /\ ~const /\ Len(input) >= 1) =>
  PrintT(<<"SCN", ToJson([steps |-> <<
     [op |-> "New", recv |-> -1, hasorder |-> TRUE, colorder |-> <<E>>, hasenums |-> TRUE, enums |-> Enums,
      data |-> << [name |-> E, kind |-> "string", strs |-> [i \in 1..Len(input) |-> StrOf(input[i])]] >>],
     [op |-> "ReadJSON", recv |-> -1, doc |-> JsonDoc, hasorder |-> TRUE, colorder |-> <<E, A>>, hasenums |-> TRUE, enums |-> Enums],
     [op |-> "ReadCSV", recv |-> -1, doc |-> CsvDoc,
      csv |-> [emptynull |-> TRUE, hastypes |-> TRUE, types |-> << [name |-> E, typ |-> "enum"] >>,
               hasenumvals |-> Strict, enumvals |-> IF Strict THEN Enums ELSE <<>>]] >>])>>)
=============================================================================
