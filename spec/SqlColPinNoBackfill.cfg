SPECIFICATION Spec
CONSTANTS
  MaxRows = 4
  PinNoBackfill = TRUE
  PinBackfillShort = FALSE
  Emit = FALSE
INVARIANTS Refines
CHECK_DEADLOCK FALSE
