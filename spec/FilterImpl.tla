----------------------------- MODULE FilterImpl -----------------------------
(***************************************************************************)
(* Mechanism model of Filter (C02): QFrame.filter (one boolean mask per    *)
(* call, OR-accumulated by kernels of the shape  if !b[i] { b[i] = pred }, *)
(* the filter.Inverse short-cut with its fall-back to an inverted scratch  *)
(* mask), AndClause (chaining), OrClause (consecutive leaves share one     *)
(* mask; other sub-clauses are merged with orFrames, a two-cursor merge    *)
(* against the parent index), NotClause (leaf: toggle Inverse; otherwise a *)
(* complement merge), index.Filter.                                        *)
(*                                                                         *)
(* Refines: for every frame and clause tree within the bounds the rows the *)
(* mechanism keeps are exactly those the row-wise semantics Sem selects,   *)
(* in frame order.  PinD2 / PinD3 switch two repaired defects back on and  *)
(* must make the check fail.                                               *)
(*                                                                         *)
(* Column A: float, nullable (0 = NaN, values 1, 2); column B: int (1, 2). *)
(***************************************************************************)
EXTENDS Integers, Sequences, TLC, SequencesExt, FiniteSets, Json

CONSTANTS MaxRows, Depth2, PinD2, PinD3, Emit

Cells == [A : {0, 1, 2}, B : {1, 2}]
Iota0(n) == [i \in 1..n |-> i]
Nullable(col) == col = "A"

Leaf(col, cmp, arg, inv) == [k |-> "leaf", col |-> col, cmp |-> cmp, arg |-> arg, inv |-> inv]
And2(a, b) == [k |-> "and", subs |-> <<a, b>>]
Or2(a, b)  == [k |-> "or", subs |-> <<a, b>>]
Or3(a, b, c) == [k |-> "or", subs |-> <<a, b, c>>]
Not1(a) == [k |-> "not", subs |-> <<a>>]

L == { Leaf("A", "<", 2, FALSE), Leaf("A", "<", 2, TRUE), Leaf("A", "=", 1, FALSE), Leaf("A", "isnull", 0, TRUE),
       Leaf("B", "isnull", 0, FALSE), Leaf("B", ">=", 2, FALSE), Leaf("A", "!=", 1, TRUE), Leaf("B", "<", 2, TRUE) }
C1 == L \cup {Not1(c) : c \in L} \cup {And2(a, b) : a, b \in L} \cup {Or2(a, b) : a, b \in L}
C2 == C1 \cup {Not1(c) : c \in C1} \cup {And2(a, b) : a \in L, b \in C1} \cup {Or2(a, b) : a \in C1, b \in L}
         \cup {Or3(a, b, c) : a \in L, b \in {Not1(x) : x \in L} \cup {And2(x, y) : x, y \in L}, c \in L}
Clauses == IF Depth2 THEN C2 ELSE C1

(************************* row-wise semantics (the abstract side) *************************)
Pred(v, cmp, arg) ==     \* v = 0 is null / NaN
  IF v = 0 THEN cmp \in {"!=", "isnull"}
  ELSE CASE cmp = "<" -> v < arg [] cmp = "<=" -> v <= arg [] cmp = ">" -> v > arg [] cmp = ">=" -> v >= arg
         [] cmp = "=" -> v = arg [] cmp = "!=" -> v # arg [] cmp = "isnull" -> FALSE [] cmp = "isnotnull" -> TRUE
RECURSIVE Sem(_, _)
Sem(row, c) ==
  CASE c.k = "leaf" -> (Pred(row[c.col], c.cmp, c.arg) # c.inv)
    [] c.k = "and" -> \A j \in 1..Len(c.subs) : Sem(row, c.subs[j])
    [] c.k = "or"  -> \E j \in 1..Len(c.subs) : Sem(row, c.subs[j])
    [] c.k = "not" -> ~Sem(row, c.subs[1])

(************************* the mechanism *************************)
InverseTab == [x \in {"<", "<=", ">", ">=", "=", "!=", "isnull", "isnotnull"} |->
   CASE x = "<" -> ">=" [] x = "<=" -> ">" [] x = ">" -> "<=" [] x = ">=" -> "<" [] x = "=" -> "!=" [] x = "!=" -> "="
     [] x = "isnull" -> "isnotnull" [] x = "isnotnull" -> "isnull"]
\* filter.Inverse has an entry; inverseIsComplement (qframe.go) admits the ordering comparators only for
\* columns that cannot hold null
ShortcutOK(col, cmp) ==
  /\ cmp \in DOMAIN InverseTab /\ cmp # "!="          \* filter.Inverse has no entry for "!="
  /\ (PinD3 \/ ~Nullable(col) \/ cmp \notin {"<", "<=", ">", ">="})

\* a column kernel: for i, x := range bIndex { if !x { bIndex[i] = pred } }
Kernel(rows, ix, b, col, cmp, arg) ==
  IF ~Nullable(col) /\ cmp = "isnull" THEN (IF PinD2 THEN [i \in DOMAIN b |-> FALSE] ELSE b)
  ELSE IF ~Nullable(col) /\ cmp = "isnotnull" THEN [i \in DOMAIN b |-> TRUE]
  ELSE [i \in DOMAIN b |-> IF b[i] THEN TRUE ELSE Pred(rows[ix[i]][col], cmp, arg)]

\* QFrame.filter(filters...): the leaves are OR-ed into one mask, then index.Filter keeps the marked positions
LeavesFilter(rows, ix, leaves) ==
  LET step(b, f) ==
        IF f.inv THEN
           IF ShortcutOK(f.col, f.cmp) THEN Kernel(rows, ix, b, f.col, InverseTab[f.cmp], f.arg)
           ELSE LET invB == Kernel(rows, ix, [i \in DOMAIN b |-> FALSE], f.col, f.cmp, f.arg)
                IN [i \in DOMAIN b |-> IF b[i] THEN TRUE ELSE ~invB[i]]
        ELSE Kernel(rows, ix, b, f.col, f.cmp, f.arg)
      mask == FoldLeft(step, [i \in 1..Len(ix) |-> FALSE], leaves)
  IN [j \in 1..Len(SelectSeq(Iota0(Len(ix)), LAMBDA i : mask[i])) |-> ix[SelectSeq(Iota0(Len(ix)), LAMBDA i : mask[i])[j]]]

OrFrames(orig, lhs, rhs) ==      \* two cursors against the original index
  LET st == FoldLeft(LAMBDA a, x :
                LET hitL == a.l <= Len(lhs) /\ lhs[a.l] = x
                    hitR == a.r <= Len(rhs) /\ rhs[a.r] = x
                IN [l |-> IF hitL THEN a.l + 1 ELSE a.l, r |-> IF hitR THEN a.r + 1 ELSE a.r,
                    out |-> IF hitL \/ hitR THEN Append(a.out, x) ELSE a.out],
              [l |-> 1, r |-> 1, out |-> <<>>], orig)
  IN st.out
NotMerge(orig, sub) ==           \* NotClause.filter on a non-leaf
  LET st == FoldLeft(LAMBDA a, x : IF a.j <= Len(sub) /\ sub[a.j] = x THEN [a EXCEPT !.j = a.j + 1]
                                   ELSE [a EXCEPT !.out = Append(a.out, x)],
                     [j |-> 1, out |-> <<>>], orig)
  IN st.out

RECURSIVE F(_, _, _)
F(rows, ix, c) ==
  CASE c.k = "leaf" -> LeavesFilter(rows, ix, <<c>>)
    [] c.k = "and" -> FoldLeft(LAMBDA cur, sub : F(rows, cur, sub), ix, c.subs)
    [] c.k = "not" -> IF c.subs[1].k = "leaf" THEN LeavesFilter(rows, ix, <<[c.subs[1] EXCEPT !.inv = ~c.subs[1].inv]>>)
                      ELSE NotMerge(ix, F(rows, ix, c.subs[1]))
    [] c.k = "or" ->             \* consecutive leaves share one mask; non-leaves are merged in
        LET flush(a) == IF a.pending = <<>> THEN a
                        ELSE LET r == LeavesFilter(rows, ix, a.pending)
                             IN [pending |-> <<>>, has |-> TRUE, acc |-> IF a.has THEN OrFrames(ix, a.acc, r) ELSE r]
            st == FoldLeft(LAMBDA a, sub :
                     IF sub.k = "leaf" THEN [a EXCEPT !.pending = Append(a.pending, sub)]
                     ELSE LET a1 == flush(a)  r == F(rows, ix, sub)
                          IN [a1 EXCEPT !.has = TRUE, !.acc = IF a1.has THEN OrFrames(ix, a1.acc, r) ELSE r],
                   [pending |-> <<>>, has |-> FALSE, acc |-> <<>>], c.subs)
        IN flush(st).acc

VARIABLES rows, clause
Init == /\ \E n \in 0..MaxRows : rows \in [1..n -> Cells]
        /\ clause \in Clauses
Next == UNCHANGED <<rows, clause>>
Spec == Init /\ [][Next]_<<rows, clause>>

Ident == [i \in 1..Len(rows) |-> i]
Refines == F(rows, Ident, clause) = SelectSeq(Ident, LAMBDA i : Sem(rows[i], clause))

(************************* scenario emission *************************)
ColName(c) == IF c = "A" THEN <<65>> ELSE <<66>>
RECURSIVE ScnClause(_)
ScnClause(c) ==
  IF c.k = "leaf" THEN
     IF c.cmp \in {"isnull", "isnotnull"} THEN [k |-> "leaf", col |-> ColName(c.col), cmpk |-> "str", cmp |-> c.cmp, inv |-> c.inv]
     ELSE IF c.col = "A" THEN [k |-> "leaf", col |-> ColName(c.col), cmpk |-> "str", cmp |-> c.cmp, inv |-> c.inv, arg |-> [t |-> "float", f |-> ToString(c.arg)]]
     ELSE [k |-> "leaf", col |-> ColName(c.col), cmpk |-> "str", cmp |-> c.cmp, inv |-> c.inv, arg |-> [t |-> "int", i |-> c.arg]]
  ELSE [k |-> c.k, subs |-> [j \in 1..Len(c.subs) |-> ScnClause(c.subs[j])]]
FloatTxt(v) == IF v = 0 THEN "NaN" ELSE ToString(v)
EmitScn == (Emit /\ Len(rows) >= 1) =>
  PrintT(<<"SCN", ToJson([steps |-> <<
     [op |-> "New", recv |-> -1, hasorder |-> TRUE, colorder |-> <<<<65>>, <<66>>>>,
      data |-> << [name |-> <<65>>, kind |-> "float", floats |-> [i \in 1..Len(rows) |-> FloatTxt(rows[i].A)]],
                  [name |-> <<66>>, kind |-> "int", ints |-> [i \in 1..Len(rows) |-> rows[i].B]] >>],
     [op |-> "Filter", recv |-> 0, clause |-> ScnClause(clause)] >>])>>)
=============================================================================
