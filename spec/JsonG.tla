------------------------------- MODULE JsonG -------------------------------
(***************************************************************************)
(* JSON (C14): a byte-level recogniser and decoder for the shape ToJSON    *)
(* emits - an array of objects whose values are numbers, strings, true,    *)
(* false or null - following RFC 8259: number grammar, string grammar (no  *)
(* raw control bytes, legal escapes only, raw bytes >= 0x80 must be valid  *)
(* UTF-8).  JRun(bytes).ok says the text is valid JSON of that shape;      *)
(* .recs is the decoded content: Seq(Seq([k : bytes, t : STRING, b])).     *)
(***************************************************************************)
EXTENDS Csv

IsDigitB(c) == c >= 48 /\ c <= 57
HexVal(c) == IF c >= 48 /\ c <= 57 THEN c - 48
             ELSE IF c >= 97 /\ c <= 102 THEN c - 87
             ELSE IF c >= 65 /\ c <= 70 THEN c - 55 ELSE -1

\* UTF-8 encoding of a BMP code point that is no surrogate
Utf8Enc(cp) ==
  IF cp < 128 THEN <<cp>>
  ELSE IF cp < 2048 THEN <<192 + (cp \div 64), 128 + (cp % 64)>>
  ELSE <<224 + (cp \div 4096), 128 + ((cp \div 64) % 64), 128 + (cp % 64)>>

\* JSON number grammar on a byte string
NumberOK(b) ==
  LET n == Len(b)
      at(i) == IF i <= n THEN b[i] ELSE 0
      i0 == IF at(1) = 45 THEN 2 ELSE 1
      \* integer part
      intEnd == IF at(i0) = 48 THEN i0 + 1
                ELSE IF at(i0) >= 49 /\ at(i0) <= 57
                     THEN LET k == SelectInSeq(SubSeq(b, i0, n), LAMBDA c : ~IsDigitB(c)) IN IF k = 0 THEN n + 1 ELSE i0 + k - 1
                     ELSE 0
      fracEnd == IF intEnd # 0 /\ at(intEnd) = 46
                 THEN LET rest == SubSeq(b, intEnd + 1, n)
                          k == SelectInSeq(rest, LAMBDA c : ~IsDigitB(c))
                          e == IF k = 0 THEN n + 1 ELSE intEnd + k
                      IN IF e = intEnd + 1 THEN 0 ELSE e                  \* at least one digit
                 ELSE intEnd
      expEnd == IF fracEnd # 0 /\ at(fracEnd) \in {69, 101}
                THEN LET s == IF at(fracEnd + 1) \in {43, 45} THEN fracEnd + 2 ELSE fracEnd + 1
                         rest == SubSeq(b, s, n)
                         k == SelectInSeq(rest, LAMBDA c : ~IsDigitB(c))
                         e == IF k = 0 THEN n + 1 ELSE s + k - 1
                     IN IF e = s THEN 0 ELSE e
                ELSE fracEnd
  IN n > 0 /\ expEnd = n + 1

JInit == [ok |-> TRUE, st |-> "start", recs |-> <<>>, cur |-> <<>>, key |-> <<>>, buf |-> <<>>,
          inkey |-> FALSE, hex |-> 0, need |-> 0, lo |-> 128, hi |-> 191]
Bad(a) == [a EXCEPT !.ok = FALSE]
\* a string ended: it was a key or a value
EndString(a) ==
  IF a.inkey THEN [a EXCEPT !.key = a.buf, !.buf = <<>>, !.st = "colon"]
  ELSE [a EXCEPT !.cur = Append(a.cur, [k |-> a.key, t |-> "str", b |-> a.buf]), !.buf = <<>>, !.st = "aftval"]
EndScalar(a) ==     \* number or literal token in buf ended
  LET b == a.buf IN
  IF b = <<116, 114, 117, 101>> THEN [a EXCEPT !.cur = Append(a.cur, [k |-> a.key, t |-> "true", b |-> <<>>]), !.buf = <<>>]
  ELSE IF b = <<102, 97, 108, 115, 101>> THEN [a EXCEPT !.cur = Append(a.cur, [k |-> a.key, t |-> "false", b |-> <<>>]), !.buf = <<>>]
  ELSE IF b = <<110, 117, 108, 108>> THEN [a EXCEPT !.cur = Append(a.cur, [k |-> a.key, t |-> "null", b |-> <<>>]), !.buf = <<>>]
  ELSE IF NumberOK(b) THEN [a EXCEPT !.cur = Append(a.cur, [k |-> a.key, t |-> "num", b |-> b]), !.buf = <<>>]
  ELSE Bad(a)
AfterValue(a, c) ==
  IF c = 44 THEN [a EXCEPT !.st = "obj1"]
  ELSE IF c = 125 THEN [a EXCEPT !.recs = Append(a.recs, a.cur), !.cur = <<>>, !.st = "aftobj"]
  ELSE Bad(a)

JStep(a, c) ==
  IF ~a.ok THEN a ELSE
  CASE a.st = "start" -> IF c = 91 THEN [a EXCEPT !.st = "arr0"] ELSE Bad(a)
    [] a.st = "arr0" -> IF c = 123 THEN [a EXCEPT !.st = "obj0"] ELSE IF c = 93 THEN [a EXCEPT !.st = "end"] ELSE Bad(a)
    [] a.st = "arr1" -> IF c = 123 THEN [a EXCEPT !.st = "obj0"] ELSE Bad(a)
    [] a.st = "obj0" -> IF c = 34 THEN [a EXCEPT !.st = "s", !.inkey = TRUE]
                        ELSE IF c = 125 THEN [a EXCEPT !.recs = Append(a.recs, a.cur), !.cur = <<>>, !.st = "aftobj"] ELSE Bad(a)
    [] a.st = "obj1" -> IF c = 34 THEN [a EXCEPT !.st = "s", !.inkey = TRUE] ELSE Bad(a)
    [] a.st = "colon" -> IF c = 58 THEN [a EXCEPT !.st = "val"] ELSE Bad(a)
    [] a.st = "val" -> IF c = 34 THEN [a EXCEPT !.st = "s", !.inkey = FALSE]
                       ELSE IF c = 45 \/ IsDigitB(c) \/ c \in {116, 102, 110} THEN [a EXCEPT !.st = "tok", !.buf = <<c>>]
                       ELSE Bad(a)
    [] a.st = "tok" -> IF c \in {44, 125} THEN LET e == EndScalar(a) IN IF e.ok THEN AfterValue(e, c) ELSE e
                       ELSE [a EXCEPT !.buf = Append(a.buf, c)]
    [] a.st = "aftval" -> AfterValue(a, c)
    [] a.st = "aftobj" -> IF c = 44 THEN [a EXCEPT !.st = "arr1"] ELSE IF c = 93 THEN [a EXCEPT !.st = "end"] ELSE Bad(a)
    [] a.st = "end" -> Bad(a)
    \* ---- inside a string
    [] a.st = "s" ->
         IF a.need > 0 THEN                                    \* continuation byte of a multi-byte sequence
            IF c >= a.lo /\ c <= a.hi THEN [a EXCEPT !.buf = Append(a.buf, c), !.need = a.need - 1, !.lo = 128, !.hi = 191]
            ELSE Bad(a)
         ELSE IF c = 34 THEN EndString(a)
         ELSE IF c = 92 THEN [a EXCEPT !.st = "esc"]
         ELSE IF c < 32 THEN Bad(a)                             \* raw control character
         ELSE IF c < 128 THEN [a EXCEPT !.buf = Append(a.buf, c)]
         ELSE IF c >= 194 /\ c <= 223 THEN [a EXCEPT !.buf = Append(a.buf, c), !.need = 1]
         ELSE IF c = 224 THEN [a EXCEPT !.buf = Append(a.buf, c), !.need = 2, !.lo = 160]
         ELSE IF c = 237 THEN [a EXCEPT !.buf = Append(a.buf, c), !.need = 2, !.hi = 159]
         ELSE IF c >= 225 /\ c <= 239 THEN [a EXCEPT !.buf = Append(a.buf, c), !.need = 2]
         ELSE IF c = 240 THEN [a EXCEPT !.buf = Append(a.buf, c), !.need = 3, !.lo = 144]
         ELSE IF c = 244 THEN [a EXCEPT !.buf = Append(a.buf, c), !.need = 3, !.hi = 143]
         ELSE IF c >= 241 /\ c <= 243 THEN [a EXCEPT !.buf = Append(a.buf, c), !.need = 3]
         ELSE Bad(a)                                            \* invalid UTF-8 lead byte
    [] a.st = "esc" ->
         CASE c = 34 -> [a EXCEPT !.buf = Append(a.buf, 34), !.st = "s"]
           [] c = 92 -> [a EXCEPT !.buf = Append(a.buf, 92), !.st = "s"]
           [] c = 47 -> [a EXCEPT !.buf = Append(a.buf, 47), !.st = "s"]
           [] c = 98 -> [a EXCEPT !.buf = Append(a.buf, 8), !.st = "s"]
           [] c = 102 -> [a EXCEPT !.buf = Append(a.buf, 12), !.st = "s"]
           [] c = 110 -> [a EXCEPT !.buf = Append(a.buf, 10), !.st = "s"]
           [] c = 114 -> [a EXCEPT !.buf = Append(a.buf, 13), !.st = "s"]
           [] c = 116 -> [a EXCEPT !.buf = Append(a.buf, 9), !.st = "s"]
           [] c = 117 -> [a EXCEPT !.st = "u1", !.hex = 0]
           [] OTHER -> Bad(a)
    [] a.st \in {"u1", "u2", "u3"} ->
         IF HexVal(c) < 0 THEN Bad(a)
         ELSE [a EXCEPT !.hex = a.hex * 16 + HexVal(c), !.st = IF a.st = "u1" THEN "u2" ELSE IF a.st = "u2" THEN "u3" ELSE "u4"]
    [] a.st = "u4" ->
         IF HexVal(c) < 0 THEN Bad(a)
         ELSE LET cp == a.hex * 16 + HexVal(c) IN
              IF cp >= 55296 /\ cp <= 57343 THEN Bad(a)         \* surrogates: not emitted by ToJSON, not modelled
              ELSE [a EXCEPT !.buf = a.buf \o Utf8Enc(cp), !.st = "s"]

JRun(bytes) == LET a == FoldLeft(JStep, JInit, bytes) IN [a EXCEPT !.ok = a.ok /\ a.st = "end"]

(***************************************************************************)
(* Go's reading of a byte string as text: every byte that does not start a *)
(* valid UTF-8 sequence stands for U+FFFD (AppendQuotedString documents    *)
(* this replacement).                                                      *)
(***************************************************************************)
RuneWidth(s, i) ==       \* width of the valid UTF-8 sequence starting at i, 0 if none
  LET n == Len(s)  c == s[i]
      cont(j, lo, hi) == j <= n /\ s[j] >= lo /\ s[j] <= hi
  IN IF c < 128 THEN 1
     ELSE IF c >= 194 /\ c <= 223 THEN (IF cont(i + 1, 128, 191) THEN 2 ELSE 0)
     ELSE IF c = 224 THEN (IF cont(i + 1, 160, 191) /\ cont(i + 2, 128, 191) THEN 3 ELSE 0)
     ELSE IF c = 237 THEN (IF cont(i + 1, 128, 159) /\ cont(i + 2, 128, 191) THEN 3 ELSE 0)
     ELSE IF c >= 225 /\ c <= 239 THEN (IF cont(i + 1, 128, 191) /\ cont(i + 2, 128, 191) THEN 3 ELSE 0)
     ELSE IF c = 240 THEN (IF cont(i + 1, 144, 191) /\ cont(i + 2, 128, 191) /\ cont(i + 3, 128, 191) THEN 4 ELSE 0)
     ELSE IF c = 244 THEN (IF cont(i + 1, 128, 143) /\ cont(i + 2, 128, 191) /\ cont(i + 3, 128, 191) THEN 4 ELSE 0)
     ELSE IF c >= 241 /\ c <= 243 THEN (IF cont(i + 1, 128, 191) /\ cont(i + 2, 128, 191) /\ cont(i + 3, 128, 191) THEN 4 ELSE 0)
     ELSE 0
RECURSIVE AsText(_, _, _)
AsText(s, i, acc) ==
  IF i > Len(s) THEN acc
  ELSE LET w == RuneWidth(s, i) IN
       IF w = 0 THEN AsText(s, i + 1, acc \o <<239, 191, 189>>)
       ELSE AsText(s, i + w, acc \o SubSeq(s, i, i + w - 1))
TextOf(s) == AsText(s, 1, <<>>)

(***************************************************************************)
(* ToJSON (C14): valid JSON; one object per row in row order; keys = the   *)
(* column names in column order; values = the cells.                       *)
(* txt[c][r] as in Csv.tla (strconv text of ints / floats / bools).        *)
(***************************************************************************)
JsonValueOK(col, cell, t, v) ==
  CASE col.typ = "int" -> v.t = "num" /\ v.b = TxtOf(t)
    [] col.typ = "float" -> IF IsNull(cell) THEN v.t = "null" ELSE v.t = "num" /\ v.b = TxtOf(t)
    [] col.typ = "bool" -> IF cell = <<0, 0, 1>> THEN v.t = "true" ELSE v.t = "false"
    [] col.typ \in {"string", "enum"} -> IF IsNull(cell) THEN v.t = "null" ELSE v.t = "str" /\ v.b = TextOf(KeyOf(cell))
    [] OTHER -> FALSE

ToJsonOK(f, bytes, txt) ==
  LET j == JRun(bytes) IN
  /\ j.ok
  /\ Len(j.recs) = f.n
  /\ \A r \in 1..f.n :
       /\ Len(j.recs[r]) = Len(f.cols)
       /\ \A c \in 1..Len(f.cols) :
            /\ j.recs[r][c].k = TextOf(f.cols[c].name)
            /\ JsonValueOK(f.cols[c], f.cols[c].cells[r], txt[c][r], j.recs[r][c])

(***************************************************************************)
(* ReadJSON: columns typed from the first record; numbers are floats; key  *)
(* order is lost (alphabetical unless ColumnOrder is given); the rest is   *)
(* New.  fparse rows: <<number text, float cell>> (strconv.ParseFloat).    *)
(***************************************************************************)
ReadJsonSem(bytes, conf, fparse) ==
  LET j == JRun(bytes) IN
  IF ~j.ok THEN ErrFrame
  ELSE IF Len(j.recs) = 0 THEN NewSem([data |-> <<>>, hasorder |-> conf.hasorder, order |-> conf.order,
                                       hasenums |-> conf.hasenums, enums |-> conf.enums])
  ELSE LET r0 == j.recs[1]
           keys == [i \in 1..Len(r0) |-> r0[i].k]
           valOf(rec, k) == LET i == SelectLastInSeq(rec, LAMBDA kv : kv.k = k) IN IF i = 0 THEN [t |-> "missing", b |-> <<>>] ELSE rec[i]
           kindOf(v) == CASE v.t = "num" -> "float" [] v.t \in {"true", "false"} -> "bool" [] OTHER -> "string"
           fcell(b) == Lookup1(fparse, MkCell(b))
           cellOf(kind, v) ==
             CASE kind = "float" -> IF v.t = "num" THEN fcell(v.b) ELSE <<9>>
               [] kind = "bool" -> IF v.t = "true" THEN <<0, 0, 1>> ELSE IF v.t = "false" THEN <<0, 0, 0>> ELSE <<9>>
               [] OTHER -> IF v.t = "str" THEN MkCell(v.b) ELSE IF v.t = "null" THEN NullCell ELSE <<9>>
           col(i) == LET kind == kindOf(valOf(r0, keys[i])) IN
                     [name |-> keys[i], kind |-> kind, count |-> 0,
                      cells |-> [r \in 1..Len(j.recs) |-> cellOf(kind, valOf(j.recs[r], keys[i]))]]
           data == [i \in 1..Len(keys) |-> col(i)]
       IN IF HasDup(keys) THEN Unspec
          ELSE IF \E i \in 1..Len(data) : \E r \in 1..Len(j.recs) : data[i].cells[r] = <<9>> THEN ErrFrame
          ELSE NewSem([data |-> data, hasorder |-> conf.hasorder, order |-> conf.order,
                       hasenums |-> conf.hasenums, enums |-> conf.enums])

\* C14 round trip: ReadJSON(ToJSON(f)) with the column order (and enum columns) declared reproduces f for
\* bool, string, enum and NaN-free float columns; int columns return as equal-valued floats
\* (conv rows: <<int cell, float cell>>, Go's float64(int)); invalid UTF-8 returns as U+FFFD text.
JsonRoundTripApplies(f) ==
  ~f.err /\ f.n >= 1 /\ Len(f.cols) >= 1
  /\ \A k \in 1..Len(f.cols) : TextOf(f.cols[k].name) = f.cols[k].name      \* a name JSON can carry
  /\ \A c \in 1..Len(f.cols) : f.cols[c].typ \in {"int", "float", "bool", "string", "enum"}
                               /\ (f.cols[c].typ = "float" => \A r \in 1..f.n : ~IsNull(f.cols[c].cells[r]))
JsonRoundTripOK(f, conv, o) ==
  /\ o.len = f.n /\ o.names = Names(f) /\ Len(o.cols) = Len(f.cols)
  /\ \A c \in 1..Len(f.cols) :
       LET col == f.cols[c] IN
       CASE col.typ = "int" -> o.types[c] = "float" /\ \A r \in 1..f.n : o.cols[c][r] = Lookup1(conv, col.cells[r])
         [] col.typ \in {"float", "bool"} -> o.types[c] = col.typ /\ o.cols[c] = col.cells
         [] OTHER -> o.types[c] = col.typ /\ \A r \in 1..f.n :
                        o.cols[c][r] = (IF IsNull(col.cells[r]) THEN NullCell ELSE MkCell(TextOf(KeyOf(col.cells[r]))))
=============================================================================
