SPECIFICATION Spec
CONSTANTS
  MaxCard = 255
  MaxR = 1
  Emit = FALSE
INVARIANTS Reflexive Symmetric Transitive ByValue Rebuilt
CHECK_DEADLOCK FALSE
