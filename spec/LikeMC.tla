------------------------------- MODULE LikeMC -------------------------------
(***************************************************************************)
(* Mechanism model for C18: the matcher selection of                       *)
(* internal/strings/match.go NewMatcher, transcribed branch by branch      *)
(* (regular expression when the pattern holds a metacharacter, otherwise   *)
(* one of contains / suffix / prefix / exact, the CI variants upper-casing *)
(* pattern and cell), against the property's own wording:                  *)
(*                                                                         *)
(*   a leading and/or trailing % stands for any prefix / suffix, the       *)
(*   remainder must occur literally (regular-expression characters by      *)
(*   their meaning), ilike compares upper-cased texts.                     *)
(*                                                                         *)
(* The declarative side (Decl) does not mention matchers, trimming or      *)
(* regular-expression text: it quantifies over the position of the body.   *)
(* The implementation side re-uses the operators LikeTruth judges real     *)
(* executions with (LikeLiteral, TrimPct, RegexText of Clause.tla), so     *)
(* Refines ties the trace specification to the wording.  The toy alphabet  *)
(* is { a A b % . }; "." is the only metacharacter and the regular-        *)
(* expression engine is the obvious one for literals and ".".              *)
(* Every pattern is also sent to the real library (EmitScn) on a column    *)
(* holding every cell of up to two characters, as string and as enum.      *)
(***************************************************************************)
EXTENDS Clause, Json

CONSTANTS MaxPat, MaxCell, PinGreedyTrim, PinAnchor, Emit

Alpha == {97, 65, 98, 37, 46}
Words(n) == UNION {[1..k -> Alpha] : k \in 0..n}
Up1(b) == IF b \in 97..122 THEN b - 32 ELSE b
Up(s) == [i \in 1..Len(s) |-> Up1(s[i])]
HasMeta(p) == \E i \in 1..Len(p) : IsMeta(p[i])

VARIABLES pat, ci, cell, chosen
vars == <<pat, ci, cell, chosen>>

Init == pat = <<>> /\ ci = FALSE /\ cell = <<>> /\ chosen = FALSE
\* one step: the input is chosen in the action (TLC enumerates initial states sequentially)
Next == ~chosen /\ chosen' = TRUE /\ \E p \in Words(MaxPat), c \in BOOLEAN, s \in Words(MaxCell) : pat' = p /\ ci' = c /\ cell' = s
Spec == Init /\ [][Next]_vars

(****************** the property's wording ******************)
ChEq(rx, cins, p, c) == (rx /\ p = 46) \/ (IF cins THEN Up1(p) = Up1(c) ELSE p = c)
Decl(p, cins, s) ==
  LET fs == FuzzyStart(p)
      a == IF fs THEN Tail(p) ELSE p
      fe == FuzzyEnd(p)                     \* of the pattern as written: a lone % is both
      body == IF FuzzyEnd(a) THEN Front(a) ELSE a
      rx == HasMeta(p)
  IN \E i \in 0..Len(s) :
        /\ i + Len(body) <= Len(s)
        /\ fs \/ i = 0
        /\ fe \/ i + Len(body) = Len(s)
        /\ \A k \in 1..Len(body) : ChEq(rx, cins, body[k], s[i + k])

(****************** NewMatcher, branch by branch ******************)
GreedyTrim(p) ==
  LET RECURSIVE L(_), R(_)
      L(x) == IF FuzzyStart(x) THEN L(Tail(x)) ELSE x
      R(x) == IF FuzzyEnd(x) THEN R(Front(x)) ELSE x
  IN R(L(p))
Trim(p) == IF PinGreedyTrim THEN GreedyTrim(p) ELSE TrimPct(p)

\* Go's regexp on the toy language: optional (?i), optional ^, optional $, literals and "."
RxMatch(text, s) ==
  LET cins == Len(text) >= 4 /\ SubSeq(text, 1, 4) = <<40, 63, 105, 41>>
      t1 == IF cins THEN SubSeq(text, 5, Len(text)) ELSE text
      aS == Len(t1) > 0 /\ t1[1] = 94
      t2 == IF aS THEN Tail(t1) ELSE t1
      aE == Len(t2) > 0 /\ t2[Len(t2)] = 36
      body == IF aE THEN Front(t2) ELSE t2
  IN \E i \in 0..Len(s) :
        /\ i + Len(body) <= Len(s)
        /\ aS => i = 0
        /\ aE => i + Len(body) = Len(s)
        /\ \A k \in 1..Len(body) : ChEq(TRUE, cins, body[k], s[i + k])

PinnedRegexText(p, cins) ==       \* anchors forgotten on the side that has no %
  LET a == IF FuzzyStart(p) THEN Tail(p) ELSE p
      b == IF FuzzyEnd(p) THEN Front(a) ELSE a
  IN IF cins THEN <<40, 63, 105, 41>> \o b ELSE b

Matcher(p, cins) ==
  LET fs == FuzzyStart(p)  fe == FuzzyEnd(p) IN
  IF HasMeta(p) THEN [kind |-> "rx", text |-> IF PinAnchor THEN PinnedRegexText(p, cins) ELSE RegexText(p, cins), up |-> FALSE]
  ELSE LET q == IF cins THEN Up(p) ELSE p IN
       [kind |-> IF fs /\ fe THEN "contains" ELSE IF fs THEN "suffix" ELSE IF fe THEN "prefix" ELSE "exact",
        text |-> IF fs \/ fe THEN Trim(q) ELSE q, up |-> cins]

Matches(m, s) ==
  LET x == IF m.up THEN Up(s) ELSE s IN
  CASE m.kind = "rx" -> RxMatch(m.text, s)
    [] m.kind = "contains" -> ContainsB(x, m.text)
    [] m.kind = "suffix" -> HasSuffixB(x, m.text)
    [] m.kind = "prefix" -> HasPrefixB(x, m.text)
    [] m.kind = "exact" -> x = m.text

Refines == Matches(Matcher(pat, ci), cell) = Decl(pat, ci, cell)

\* the operator the trace specification judges real executions with agrees with the matcher model
TraceOpAgrees == ~HasMeta(pat) =>
  LET q == IF ci THEN Up(pat) ELSE pat  x == IF ci THEN Up(cell) ELSE cell IN
  LikeLiteral(q, FuzzyStart(pat), FuzzyEnd(pat), x) = Matches(Matcher(pat, ci), cell)

\* consequences a user relies on
LonePercentMatchesAll == (pat \in {<<37>>, <<37, 37>>}) => Matches(Matcher(pat, ci), cell)
NoPercentIsEquality == (~HasMeta(pat) /\ ~FuzzyStart(pat) /\ ~FuzzyEnd(pat)) =>
  (Matches(Matcher(pat, ci), cell) <=> (IF ci THEN Up(cell) = Up(pat) ELSE cell = pat))
IlikeIsLikeOnUpper == ~HasMeta(pat) =>
  (Matches(Matcher(pat, TRUE), cell) <=> Matches(Matcher(Up(pat), FALSE), Up(cell)))

(****************** scenario emission: one per pattern ******************)
S == <<83>>  X == <<88>>
CellList == LET ws == SetToSeq(Words(2)) IN ws \o << <<0>> >>
Leaf(col, cmp) == [k |-> "leaf", col |-> col, cmpk |-> "str", cmp |-> cmp, inv |-> FALSE, arg |-> [t |-> "string", s |-> pat]]
EmitScn == (Emit /\ chosen /\ cell = <<>> /\ ~ci) =>
  PrintT(<<"SCN", ToJson([steps |-> <<
     [op |-> "New", recv |-> -1, hasorder |-> TRUE, colorder |-> <<S, X>>, hasenums |-> TRUE,
      enums |-> << [name |-> X, vals |-> <<>>] >>,
      data |-> << [name |-> S, kind |-> "string", strs |-> CellList], [name |-> X, kind |-> "string", strs |-> CellList] >>],
     [op |-> "Filter", recv |-> 0, clause |-> Leaf(S, "like")],
     [op |-> "Filter", recv |-> 0, clause |-> Leaf(S, "ilike")],
     [op |-> "Filter", recv |-> 0, clause |-> Leaf(X, "like")],
     [op |-> "Filter", recv |-> 0, clause |-> Leaf(X, "ilike")] >>])>>)
=============================================================================
