SPECIFICATION Spec
CONSTANT MaxCard = 255
INVARIANT Report
CHECK_DEADLOCK FALSE
