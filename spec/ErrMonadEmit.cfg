SPECIFICATION Spec
CONSTANTS
  MaxCard = 255
  DepthE = 3
  Emit = TRUE
INVARIANTS Sticky GrouperPasses EmitScn
PROPERTY ErrIffInvalid
CHECK_DEADLOCK FALSE
