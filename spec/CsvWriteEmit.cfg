SPECIFICATION Spec
CONSTANTS
  MaxCard = 255
  MaxRowsW = 1
  MaxColsW = 2
  Emit = TRUE
INVARIANTS RenderInverse EmitScn
CHECK_DEADLOCK FALSE
