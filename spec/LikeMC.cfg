SPECIFICATION Spec
CONSTANTS
  MaxCard = 255
  MaxPat = 3
  MaxCell = 3
  PinGreedyTrim = FALSE
  PinAnchor = FALSE
  Emit = FALSE
INVARIANTS Refines TraceOpAgrees LonePercentMatchesAll NoPercentIsEquality IlikeIsLikeOnUpper
CHECK_DEADLOCK FALSE
