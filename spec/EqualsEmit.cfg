SPECIFICATION Spec
CONSTANTS
  MaxCard = 255
  MaxR = 1
  Emit = TRUE
INVARIANTS Reflexive Symmetric ByValue Rebuilt EmitScn
CHECK_DEADLOCK FALSE
