------------------------------- MODULE BigNat -------------------------------
(***************************************************************************)
(* Arbitrary-precision naturals in TLA+: little-endian limb sequences base *)
(* 10^4, zero = <<>>.  Only folds (FoldLeft has a Java override); TLC       *)
(* integers stay below 2^31 (a limb product is < 10^8).                     *)
(***************************************************************************)
EXTENDS Integers, Sequences, SequencesExt, TLC

B == 10000
Norm(a) == LET nz == SelectLastInSeq(a, LAMBDA x : x # 0) IN SubSeq(a, 1, nz)
MulSmall(a, s) ==      \* s < B
  LET st == FoldLeft(LAMBDA acc, x : LET p == x * s + acc.c IN [r |-> Append(acc.r, p % B), c |-> p \div B],
                     [r |-> <<>>, c |-> 0], a)
  IN IF s = 0 THEN <<>> ELSE IF st.c = 0 THEN st.r ELSE Append(st.r, st.c)
AddSmall(a, s) ==      \* s < B
  LET st == FoldLeft(LAMBDA acc, x : LET p == x + acc.c IN [r |-> Append(acc.r, p % B), c |-> p \div B],
                     [r |-> <<>>, c |-> s], a)
  IN IF st.c = 0 THEN st.r ELSE Append(st.r, st.c)
SubOne(a) ==           \* a > 0
  LET st == FoldLeft(LAMBDA acc, x : IF acc.b = 0 THEN [acc EXCEPT !.r = Append(acc.r, x)]
                                     ELSE IF x = 0 THEN [acc EXCEPT !.r = Append(acc.r, B - 1)]
                                     ELSE [r |-> Append(acc.r, x - 1), b |-> 0],
                     [r |-> <<>>, b |-> 1], a)
  IN Norm(st.r)
Add(a, b) ==
  LET n == IF Len(a) > Len(b) THEN Len(a) ELSE Len(b)
      st == FoldLeft(LAMBDA acc, i :
                LET p == (IF i <= Len(a) THEN a[i] ELSE 0) + (IF i <= Len(b) THEN b[i] ELSE 0) + acc.c
                IN [r |-> Append(acc.r, p % B), c |-> p \div B],
              [r |-> <<>>, c |-> 0], [i \in 1..n |-> i])
  IN IF st.c = 0 THEN st.r ELSE Append(st.r, st.c)
Shift(a, k) == IF a = <<>> THEN <<>> ELSE [i \in 1..(Len(a) + k) |-> IF i <= k THEN 0 ELSE a[i - k]]
Mul(a, b) == FoldLeft(LAMBDA acc, j : Add(acc, Shift(MulSmall(a, b[j]), j - 1)), <<>>, [j \in 1..Len(b) |-> j])
Cmp(a, b) ==           \* -1, 0, 1
  IF Len(a) # Len(b) THEN (IF Len(a) < Len(b) THEN -1 ELSE 1)
  ELSE LET d == SelectLastInSeq([i \in 1..Len(a) |-> a[i] # b[i]], LAMBDA x : x)
       IN IF d = 0 THEN 0 ELSE IF a[d] < b[d] THEN -1 ELSE 1
PowTable(base, n) == FoldLeft(LAMBDA acc, i : Append(acc, MulSmall(acc[Len(acc)], base)), << <<1>> >>, [i \in 1..n |-> i])
FromDigits(ds) == FoldLeft(LAMBDA acc, dg : AddSmall(MulSmall(acc, 10), dg), <<>>, ds)
=============================================================================
