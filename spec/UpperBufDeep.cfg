SPECIFICATION Spec
CONSTANTS
  MaxRunes = 4
  MaxCalls = 2
  Use = {1, 2, 3, 4, 5, 6, 7}
  BufInit = 10
  UTFMax = 4
  PinGrow = FALSE
  Emit = FALSE
INVARIANTS NoOverrun Correct BufUsable
PROPERTIES BufMonotone
CHECK_DEADLOCK FALSE
