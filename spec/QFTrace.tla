------------------------------ MODULE QFTrace ------------------------------
(***************************************************************************)
(* Trace validation: binds the specification to the Go code.               *)
(*                                                                         *)
(* The harness executes scenarios on the real library and logs one event   *)
(* per public call (operation, receiver id, arguments, observed result,    *)
(* digests of the re-observation of every earlier family member).  This    *)
(* module replays the log: its state -- the family of abstract frames and  *)
(* groupers of the current scenario -- advances ONLY through the           *)
(* specification's own operators; the logged observation is compared with  *)
(* what the operator yields (deterministic operations) or checked against  *)
(* the operation's postcondition and then adopted (Sort ties, order of     *)
(* Distinct rows / groups).                                                *)
(*                                                                         *)
(* A rejected event never blocks: it is recorded in bad and the rest of    *)
(* that scenario is skipped (its later events depend on the rejected       *)
(* state); all other scenarios are still judged.                           *)
(***************************************************************************)
EXTENDS Judge, Json, IOUtils

Trace == ndJsonDeserialize(IOEnv.TRACE_FILE)

VARIABLES l,        \* next line of the trace
          frames,   \* family of the current scenario: sequence, frame id k is frames[k+1]
          digs,     \* digest of each member's observation at its birth
          groupers, \* groupers of the current scenario
          gdigs,
          vdigs,    \* digests of the typed views obtained so far
          tainted,  \* the current scenario had a rejected / unspecified event: skip its remainder
          bad,      \* rejected events <<scn, i, kind>>
          herr,     \* harness errors (table misses): <<scn, i>>
          stats     \* [judged, skipped, unspec]
vars == <<l, frames, digs, groupers, gdigs, vdigs, tainted, bad, herr, stats>>

Init == /\ l = 1 /\ frames = <<>> /\ digs = <<>> /\ groupers = <<>> /\ gdigs = <<>> /\ vdigs = <<>>
        /\ tainted = FALSE /\ bad = {} /\ herr = {}
        /\ stats = [judged |-> 0, skipped |-> 0, unspec |-> 0]

\* C01: every earlier frame, grouper and view is re-observed after the step and must be as at birth
Persist(e, D, GD, VD) ==
  /\ \A k \in 1..Len(e.reobs) : e.reobs[k][2] = D[e.reobs[k][1] + 1]
  /\ \A k \in 1..Len(e.greobs) : e.greobs[k][2] = GD[e.greobs[k][1] + 1]
  /\ \A k \in 1..Len(e.vreobs) : e.vreobs[k][2] = VD[e.vreobs[k][1] + 1]

Next ==
  /\ l <= Len(Trace)
  /\ l' = l + 1
  /\ LET e  == Trace[l]
         first == e.i = 1
         Fr == IF first THEN <<>> ELSE frames
         Gr == IF first THEN <<>> ELSE groupers
         D  == IF first THEN <<>> ELSE digs
         GD == IF first THEN <<>> ELSE gdigs
         VD == IF first THEN <<>> ELSE vdigs
         tn == IF first THEN FALSE ELSE tainted
     IN
     IF tn THEN
        /\ UNCHANGED <<frames, digs, groupers, gdigs, vdigs, bad, herr>>
        /\ tainted' = TRUE
        /\ stats' = [stats EXCEPT !.skipped = @ + 1]
     ELSE IF e.race = 1 THEN                  \* C11: the race detector reported a data race during this batch
        /\ bad' = bad \cup {<<e.scn, e.i, "race">>}
        /\ tainted' = TRUE
        /\ frames' = Fr /\ digs' = D /\ groupers' = Gr /\ gdigs' = GD /\ vdigs' = VD
        /\ UNCHANGED herr
        /\ stats' = [stats EXCEPT !.judged = @ + 1]
     ELSE IF e.pan = 1 THEN
        /\ bad' = bad \cup {<<e.scn, e.i, "panic">>}
        /\ tainted' = TRUE
        /\ frames' = Fr /\ digs' = D /\ groupers' = Gr /\ gdigs' = GD /\ vdigs' = VD
        /\ UNCHANGED herr
        /\ stats' = [stats EXCEPT !.judged = @ + 1]
     ELSE
        LET j == Judge(e, Fr, Gr)
            pers == Persist(e, D, GD, VD)
        IN
        /\ bad' = bad \cup (IF j.miss THEN {} ELSE IF ~j.ok THEN {<<e.scn, e.i, "result">>} ELSE {})
                      \cup (IF pers THEN {} ELSE {<<e.scn, e.i, "persist">>})
        /\ herr' = herr \cup (IF j.miss THEN {<<e.scn, e.i>>} ELSE {})
        \* an unspecified outcome only spoils the rest of the scenario if it yielded a family member
        /\ tainted' = (j.miss \/ ~j.ok \/ ~pers \/ (j.unspec /\ Len(j.newf) + Len(j.newg) > 0))
        /\ frames' = Fr \o j.newf
        /\ digs' = D \o j.newd
        /\ groupers' = Gr \o j.newg
        /\ gdigs' = GD \o j.newgd
        /\ vdigs' = VD \o j.newvd
        /\ stats' = [stats EXCEPT !.judged = @ + 1, !.unspec = @ + (IF j.unspec THEN 1 ELSE 0)]

Spec == Init /\ [][Next]_vars

\* evaluated in every state; prints the verdict once the whole trace has been consumed
Report ==
  l <= Len(Trace) \/
  PrintT(<<"VERIF-RESULT", ToJson([consumed |-> l - 1, lines |-> Len(Trace), bad |-> bad, herr |-> herr,
                                   judged |-> stats.judged, skipped |-> stats.skipped, unspec |-> stats.unspec])>>)
=============================================================================
