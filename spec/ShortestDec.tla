---------------------------- MODULE ShortestDec ----------------------------
(***************************************************************************)
(* C16: the shortest decimal that identifies a binary64 value.             *)
(*                                                                         *)
(* A finite non-zero double is x = m * 2^e (m the 53-bit significand as an *)
(* integer).  Its rounding interval is [lo, hi]: the midpoints to the      *)
(* neighbouring doubles, lo = (2m-1) 2^(e-1), or (4m-1) 2^(e-2) when m is  *)
(* a power of two (the lower neighbour is half as far; flag low), hi =     *)
(* (2m+1) 2^(e-1); the endpoints belong to it iff m is even (round half to *)
(* even).  A text in the positional 'f' grammar denotes D = d * 10^k with  *)
(* 10 not dividing d.  It is the shortest round-tripping text iff          *)
(*   D is inside the interval,                                             *)
(*   neither floor(d/10) * 10^(k+1) nor (floor(d/10)+1) * 10^(k+1) is      *)
(*     (by convexity these are the only candidates with fewer digits), and *)
(*   of the neighbours (d-1) 10^k, (d+1) 10^k that are inside, none is     *)
(*     strictly closer to x than D.                                        *)
(* All comparisons are cross-multiplied integer comparisons (no division). *)
(***************************************************************************)
EXTENDS BigNat

Pow2T == PowTable(2, 1100)
Pow10T == PowTable(10, 360)

\* sign of P * 2^a - Q * 10^b for integers a, b (a >= -1100, |b| <= 360)
CmpScaled(P, a, Q, b) ==
  LET lhs0 == IF a >= 0 THEN Mul(P, Pow2T[a + 1]) ELSE P
      rhs0 == IF a < 0 THEN Mul(Q, Pow2T[1 - a]) ELSE Q
      lhs == IF b < 0 THEN Mul(lhs0, Pow10T[1 - b]) ELSE lhs0
      rhs == IF b >= 0 THEN Mul(rhs0, Pow10T[b + 1]) ELSE rhs0
  IN Cmp(lhs, rhs)

\* the 'f' grammar:  [-] digits [ . digits ], no superfluous zeros; value d * 10^k
IsDigit(c) == c >= 48 /\ c <= 57
Parse(txt) ==
  LET dot == SelectInSeq(txt, LAMBDA c : c = 46)
      ip == IF dot = 0 THEN txt ELSE SubSeq(txt, 1, dot - 1)
      fp == IF dot = 0 THEN <<>> ELSE SubSeq(txt, dot + 1, Len(txt))
      ok == /\ Len(ip) >= 1 /\ \A i \in 1..Len(ip) : IsDigit(ip[i])
            /\ \A i \in 1..Len(fp) : IsDigit(fp[i])
            /\ (Len(ip) > 1 => ip[1] # 48)                     \* no leading zero
            /\ (dot # 0 => Len(fp) >= 1 /\ fp[Len(fp)] # 48)   \* no trailing zero after the point
      all == [i \in 1..(Len(ip) + Len(fp)) |-> (IF i <= Len(ip) THEN ip[i] ELSE fp[i - Len(ip)]) - 48]
      firstNZ == SelectInSeq(all, LAMBDA x : x # 0)
      lastNZ == SelectLastInSeq(all, LAMBDA x : x # 0)
      digs == IF firstNZ = 0 THEN <<>> ELSE SubSeq(all, firstNZ, lastNZ)
  IN [ok |-> ok, digs |-> digs, k |-> (Len(all) - lastNZ) - Len(fp)]

InI(Q, b, m, e, low, even) ==      \* is Q * 10^b inside the rounding interval of m * 2^e ?
  LET lo == IF low THEN SubOne(MulSmall(m, 4)) ELSE SubOne(MulSmall(m, 2))
      loE == IF low THEN e - 2 ELSE e - 1
      hi == AddSmall(MulSmall(m, 2), 1)
      cl == CmpScaled(lo, loE, Q, b)
      ch == CmpScaled(hi, e - 1, Q, b)
  IN IF even THEN cl <= 0 /\ ch >= 0 ELSE cl < 0 /\ ch > 0

Shortest(m, e, low, txt) ==
  LET p == Parse(txt)
      d == FromDigits(p.digs)
      even == (m[1] % 2) = 0
      dTrunc == FromDigits(Front(p.digs))
      up == AddSmall(d, 1)
      dn == SubOne(d)
  IN /\ p.ok /\ p.digs # <<>>
     /\ InI(d, p.k, m, e, low, even)
     /\ (Len(p.digs) > 1 => ~InI(dTrunc, p.k + 1, m, e, low, even))
     /\ ~InI(AddSmall(dTrunc, 1), p.k + 1, m, e, low, even)
     /\ (InI(up, p.k, m, e, low, even) => CmpScaled(MulSmall(m, 2), e, AddSmall(MulSmall(d, 2), 1), p.k) <= 0)
     /\ (dn # <<>> /\ InI(dn, p.k, m, e, low, even) => CmpScaled(MulSmall(m, 2), e, SubOne(MulSmall(d, 2)), p.k) >= 0)
=============================================================================
