------------------------------- MODULE IOSem -------------------------------
(***************************************************************************)
(* Observers and I/O: ToCSV / ToJSON / String / ReadCSV / ReadJSON /       *)
(* ToSQL / ReadSQL.  (Grows per property; see Csv.tla, JsonG.tla.)         *)
(***************************************************************************)
EXTENDS Sql

\* a frame rebuilt with New from the observed values of another (C09): enum tables are re-derived
RebuildSem(f) ==
  IF f.err THEN Unspec
  ELSE LET keep == SelectSeq(f.cols, LAMBDA c : c.typ # "Undefined") IN
       [f EXCEPT !.n = IF Len(keep) = 0 THEN 0 ELSE f.n,
                 !.cols = [i \in 1..Len(keep) |->
                             IF keep[i].typ = "enum"
                             THEN [keep[i] EXCEPT !.vals = DerivedVals(keep[i].cells), !.strict = FALSE]
                             ELSE keep[i]]]

IORes(ok, miss, unspec) ==
  [ok |-> ok, miss |-> miss, unspec |-> unspec, newf |-> <<>>, newd |-> <<>>, newg |-> <<>>, newgd |-> <<>>, newvd |-> <<>>]

\* ToCSV / ToJSON report an error exactly when the frame carries one (C10) or the writer options are invalid
ToCsvArgsBad(f, a) == a.hascols = 1 /\ (Len(a.cols) # Len(f.cols) \/ \E i \in 1..Len(a.cols) : ~HasCol(f, a.cols[i]))

JudgeIO(e, Fr, Gr) ==
  LET R == Fr[e.recv + 1] IN
  CASE e.op \in {"ToCSV", "ToJSON"} /\ e.fired = 1 -> IORes(e.err = 1, FALSE, FALSE)   \* C15: the writer failed
    [] e.op = "ToCSV" ->
         IF R.err THEN IORes(e.err = 1, FALSE, FALSE)
         ELSE IF ToCsvArgsBad(R, e.a) THEN IORes(e.err = 1, FALSE, FALSE)
         ELSE IF (e.a.hascols = 1 /\ HasDup(e.a.cols)) \/ Len(R.cols) = 0 THEN IORes(TRUE, FALSE, TRUE)  \* CSV cannot show a row of no fields
         ELSE IORes(e.err = 0 /\ ToCsvOK(R, e.a.header, e.a.hascols, e.a.cols, e.bytes, e.txt), FALSE, FALSE)
    [] e.op = "ToJSON" ->
         IF R.err THEN IORes(e.err = 1, FALSE, FALSE)
         ELSE IF \E c \in 1..Len(R.cols) : R.cols[c].typ = "float" /\ \E r \in 1..R.n : e.txt[c][r] \in {<<0, 43, 73, 110, 102>>, <<0, 45, 73, 110, 102>>}
              THEN IORes(TRUE, FALSE, TRUE)           \* JSON has no infinities: C14 speaks of finite floats and NaN only
         ELSE IORes(e.err = 0 /\ ToJsonOK(R, e.bytes, e.txt), FALSE, FALSE)
    [] e.op = "String" ->
         IF R.err THEN IORes(TRUE, FALSE, FALSE)          \* prints the error text, which is not specified
         ELSE IORes(e.bytes = StringSem(R, e.txt), FALSE, FALSE)
    [] e.op = "ReadCSV" /\ e.fired = 1 ->      \* C15: the reader failed: the call must report it
         [IORes(e.obs.len = -1, FALSE, FALSE) EXCEPT !.newf = <<ErrFrame>>, !.newd = <<e.dig>>]
    [] e.op = "ReadJSON" /\ e.fired = 1 ->
         [IORes(e.obs.len = -1, FALSE, FALSE) EXCEPT !.newf = <<ErrFrame>>, !.newd = <<e.dig>>]
    [] e.op = "ReadCSV" ->
         LET v == ReadCsvOK(e.a.doc, e.a.conf, e.a.parse, e.obs)
             exp == CsvFrameSem(Denote(e.a.doc, e.a.conf.delim, v # "b"), e.a.conf, e.a.parse)
             rtOK == e.a.rt < 0 \/ Fr[e.a.rt + 1].err \/ ~CsvRoundTripApplies(Fr[e.a.rt + 1], e.a.conf)
                     \/ ObsMatches(NullRule(Fr[e.a.rt + 1], e.a.conf.emptynull), e.obs)
         IN IF v = "unspec" THEN [IORes(TRUE, FALSE, TRUE) EXCEPT !.newf = <<ErrFrame>>, !.newd = <<e.dig>>]
            ELSE IF v = "miss" THEN [IORes(TRUE, TRUE, FALSE) EXCEPT !.newf = <<ErrFrame>>, !.newd = <<e.dig>>]
            ELSE [IORes(v # "bad" /\ rtOK, FALSE, FALSE) EXCEPT !.newf = <<exp>>, !.newd = <<e.dig>>]
    [] e.op = "ReadJSON" ->
         LET exp == ReadJsonSem(e.a.doc, e.a.conf, e.a.fparse)
             \* C14: reading back what ToJSON wrote reproduces the frame (ints return as equal floats)
             rtOK == e.a.rt < 0 \/ ~JsonRoundTripApplies(Fr[e.a.rt + 1]) \/ JsonRoundTripOK(Fr[e.a.rt + 1], e.a.conv, e.obs) IN
         IF IsUnspec(exp) THEN [IORes(TRUE, FALSE, TRUE) EXCEPT !.newf = <<ErrFrame>>, !.newd = <<e.dig>>]
         ELSE IF ~exp.err /\ (\E c \in 1..Len(exp.cols) : \E r \in 1..Len(exp.cols[c].cells) : exp.cols[c].cells[r] = <<2>>)
              THEN [IORes(TRUE, TRUE, FALSE) EXCEPT !.newf = <<ErrFrame>>, !.newd = <<e.dig>>]
         ELSE [IORes(ObsMatches(exp, e.obs) /\ rtOK, FALSE, FALSE) EXCEPT !.newf = <<exp>>, !.newd = <<e.dig>>]
    [] e.op = "CsvScan" ->                    \* a behaviour of CsvScan.tla replayed through the real scanner
         IF e.fired = 1 THEN IORes(e.err = 1, FALSE, FALSE)
         ELSE IF ~WellFormedCsv(e.a.doc, e.a.delim) THEN IORes(TRUE, FALSE, TRUE)
         ELSE IORes(e.err = 0 /\ (e.rows = Denote(e.a.doc, e.a.delim, TRUE) \/ e.rows = Denote(e.a.doc, e.a.delim, FALSE)), FALSE, FALSE)
    [] e.op = "ToSQL" ->
         IF e.fired = 1 THEN IORes(e.err = 1, FALSE, FALSE)                       \* C15: a failing driver is reported
         ELSE IF R.err THEN IORes(e.err = 1 /\ Len(e.dcalls) = 0, FALSE, FALSE)
         ELSE IF \E c \in 1..Len(R.cols) : R.cols[c].typ = "Undefined" THEN IORes(e.err = 1, FALSE, FALSE)
         ELSE IORes(ToSqlOK(R, e.a.conf, e.dcalls, e.err), FALSE, FALSE)
    [] e.op = "ReadSQL" ->
         IF e.fired = 1 THEN [IORes(e.obs.len = -1, FALSE, FALSE) EXCEPT !.newf = <<ErrFrame>>, !.newd = <<e.dig>>]
         ELSE
         LET exp == ReadSqlSem(e.a.names, e.a.rows, e.a.conf, e.a.fparse)
             prep == SelectSeq(e.dcalls, LAMBDA c : c.kind = "Prepare")
             proto == Len(prep) = 1 /\ prep[1].stmt = e.a.query
             rtOK == e.a.rt < 0 \/ ~SqlRoundTripApplies(Fr[e.a.rt + 1]) \/ SqlRoundTripOK(Fr[e.a.rt + 1], e.obs)
         IN IF IsUnspec(exp) THEN [IORes(TRUE, FALSE, TRUE) EXCEPT !.newf = <<ErrFrame>>, !.newd = <<e.dig>>]
            ELSE IF ~exp.err /\ (\E c \in 1..Len(exp.cols) : exp.cols[c].typ = "miss")
                 THEN [IORes(TRUE, TRUE, FALSE) EXCEPT !.newf = <<ErrFrame>>, !.newd = <<e.dig>>]
            ELSE LET rc == RoundedCols(exp, e.a.conf) IN
                 IF rc = {} THEN [IORes(ObsMatches(exp, e.obs) /\ proto /\ rtOK, FALSE, FALSE) EXCEPT !.newf = <<exp>>, !.newd = <<e.dig>>]
                 ELSE IF \E c \in rc : \E r \in 1..exp.n : RoundMiss(e.a.fround, exp.cols[c].cells[r])
                      THEN [IORes(TRUE, TRUE, FALSE) EXCEPT !.newf = <<ErrFrame>>, !.newd = <<e.dig>>]
                 ELSE \* float columns: every cell is an admissible rounding of the delivered value; the rest as is
                      LET shape == /\ e.obs.len = exp.n /\ e.obs.names = Names(exp) /\ e.obs.types = Types(exp)
                                   /\ Len(e.obs.cols) = Len(exp.cols)
                                   /\ \A c \in 1..Len(exp.cols) : Len(e.obs.cols[c]) = exp.n
                          cellsOK == \A c \in 1..Len(exp.cols) :
                                       IF c \in rc THEN \A r \in 1..exp.n : RoundOK(e.a.fround, exp.cols[c].cells[r], e.obs.cols[c][r])
                                       ELSE e.obs.cols[c] = exp.cols[c].cells
                          ok == shape /\ cellsOK /\ proto
                          adopted == [exp EXCEPT !.cols = [c \in 1..Len(exp.cols) |->
                                        IF c \in rc THEN [exp.cols[c] EXCEPT !.cells = e.obs.cols[c]] ELSE exp.cols[c]]]
                      IN [IORes(ok, FALSE, FALSE) EXCEPT !.newf = <<IF ok THEN adopted ELSE ErrFrame>>, !.newd = <<e.dig>>]
    [] OTHER -> IORes(TRUE, TRUE, FALSE)
=============================================================================
