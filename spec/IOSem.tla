------------------------------- MODULE IOSem -------------------------------
(***************************************************************************)
(* Observers and I/O: ToCSV / ToJSON / String / ReadCSV / ReadJSON /       *)
(* ToSQL / ReadSQL.  (Grows per property; see Csv.tla, JsonG.tla.)         *)
(***************************************************************************)
EXTENDS ApplyEval

\* a frame rebuilt with New from the observed values of another (C09): enum tables are re-derived
RebuildSem(f) ==
  IF f.err THEN Unspec
  ELSE LET keep == SelectSeq(f.cols, LAMBDA c : c.typ # "Undefined") IN
       [f EXCEPT !.n = IF Len(keep) = 0 THEN 0 ELSE f.n,
                 !.cols = [i \in 1..Len(keep) |->
                             IF keep[i].typ = "enum"
                             THEN [keep[i] EXCEPT !.vals = DerivedVals(keep[i].cells), !.strict = FALSE]
                             ELSE keep[i]]]

JudgeIO(e, Fr, Gr) ==
  [ok |-> TRUE, miss |-> TRUE, unspec |-> FALSE, newf |-> <<>>, newd |-> <<>>, newg |-> <<>>, newgd |-> <<>>]
=============================================================================
