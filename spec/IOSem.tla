------------------------------- MODULE IOSem -------------------------------
(***************************************************************************)
(* Observers and I/O: ToCSV / ToJSON / String / ReadCSV / ReadJSON /       *)
(* ToSQL / ReadSQL.  (Grows per property; see Csv.tla, JsonG.tla.)         *)
(***************************************************************************)
EXTENDS ApplyEval

\* a frame rebuilt with New from the observed values of another (C09): enum tables are re-derived
RebuildSem(f) ==
  IF f.err THEN Unspec
  ELSE LET keep == SelectSeq(f.cols, LAMBDA c : c.typ # "Undefined") IN
       [f EXCEPT !.n = IF Len(keep) = 0 THEN 0 ELSE f.n,
                 !.cols = [i \in 1..Len(keep) |->
                             IF keep[i].typ = "enum"
                             THEN [keep[i] EXCEPT !.vals = DerivedVals(keep[i].cells), !.strict = FALSE]
                             ELSE keep[i]]]

IORes(ok, miss, unspec) ==
  [ok |-> ok, miss |-> miss, unspec |-> unspec, newf |-> <<>>, newd |-> <<>>, newg |-> <<>>, newgd |-> <<>>, newvd |-> <<>>]

JudgeIO(e, Fr, Gr) ==
  LET R == Fr[e.recv + 1] IN
  CASE e.op \in {"ToCSV", "ToJSON"} -> IORes((e.err = 1) = R.err, FALSE, FALSE)
    [] e.op = "String" -> IORes(TRUE, FALSE, FALSE)
    [] OTHER -> IORes(TRUE, TRUE, FALSE)
=============================================================================
