SPECIFICATION Spec
CONSTANTS
  MaxCard = 3
  NSym = 4
  MaxLenE = 5
  PinLimit = FALSE
  PinConst = TRUE
  Emit = FALSE
INVARIANTS Decodes TableOK Refines 
CHECK_DEADLOCK FALSE
