------------------------------ MODULE CsvWrite ------------------------------
(***************************************************************************)
(* Mechanism model of the CSV writer ToCSV relies on (C13): the quoting    *)
(* rule of Go's encoding/csv Writer (a field is quoted iff it contains the *)
(* delimiter, a quote, CR or LF, starts with a space, or is the two bytes  *)
(* \. ; quotes are doubled; records end in LF), composed with the RFC 4180 *)
(* denotation of Csv.tla.                                                  *)
(*                                                                         *)
(* RenderInverse: Denote(Render(rows)) = rows for every small matrix of cells    *)
(* over the bytes that matter - so what ToCSV writes denotes exactly the   *)
(* texts of the cells, and reading it back loses nothing but the           *)
(* difference between null and the empty string.                           *)
(***************************************************************************)
EXTENDS Str, Json

CONSTANTS MaxRowsW, MaxColsW, Emit

\* "", a, the delimiter, a quote, LF, leading space, \., a"b, "", a LF
CellSet == {<<>>, <<97>>, <<44>>, <<34>>, <<10>>, <<32, 97>>, <<92, 46>>, <<97, 34, 98>>, <<34, 34>>, <<97, 10>>}

NeedsQuotes(f) ==
  /\ f # <<>>
  /\ \/ f = <<92, 46>>
     \/ \E i \in 1..Len(f) : f[i] \in {44, 34, 13, 10}
     \/ f[1] = 32
QuoteField(f) == <<34>> \o FoldLeft(LAMBDA acc, b : IF b = 34 THEN acc \o <<34, 34>> ELSE Append(acc, b), <<>>, f) \o <<34>>
RenderField(f) == IF NeedsQuotes(f) THEN QuoteField(f) ELSE f
RenderRow(row) == JoinWith([i \in 1..Len(row) |-> RenderField(row[i])], <<44>>) \o <<10>>
Render(rows) == FoldLeft(LAMBDA acc, r : acc \o RenderRow(r), <<>>, rows)

VARIABLES rows, stage
vars == <<rows, stage>>
Init == rows = <<>> /\ stage = 0
Next == /\ stage = 0 /\ stage' = 1
        /\ \E nr \in 1..MaxRowsW, nc \in 1..MaxColsW : rows' \in [1..nr -> [1..nc -> CellSet]]
Spec == Init /\ [][Next]_vars

RenderInverse == LET doc == Render(rows) IN WellFormedCsv(doc, 44) /\ Denote(doc, 44, TRUE) = rows /\ Denote(doc, 44, FALSE) = rows

\* scenario: a string frame holding the cells, written and read back with both EmptyNull settings
ColNameW(c) == <<67, 48 + c>>
EmitScn == (Emit /\ stage = 1) =>
  LET nc == Len(rows[1]) IN
  PrintT(<<"SCN", ToJson([steps |-> <<
     [op |-> "New", recv |-> -1, hasorder |-> TRUE, colorder |-> [c \in 1..nc |-> ColNameW(c)],
      data |-> [c \in 1..nc |-> [name |-> ColNameW(c), kind |-> "string", strs |-> [r \in 1..Len(rows) |-> rows[r][c]]]]],
     [op |-> "ToCSV", recv |-> 0],
     [op |-> "ReadCSV", recv |-> -1, other |-> 1, csv |-> [hastypes |-> TRUE, types |-> [c \in 1..nc |-> [name |-> ColNameW(c), typ |-> "string"]]]],
     [op |-> "ReadCSV", recv |-> -1, other |-> 1, reads |-> <<1>>,
      csv |-> [emptynull |-> TRUE, hastypes |-> TRUE, types |-> [c \in 1..nc |-> [name |-> ColNameW(c), typ |-> "string"]]]] >>])>>)
=============================================================================
