SPECIFICATION Spec
CONSTANTS
  MaxRunes = 6
  MaxCalls = 3
  Use = {1, 5}
  BufInit = 10
  UTFMax = 4
  PinGrow = TRUE
  Emit = FALSE
INVARIANTS NoOverrun

CHECK_DEADLOCK FALSE
