------------------------------ MODULE UpperBuf ------------------------------
(***************************************************************************)
(* Mechanism model for C18: internal/strings/convert.go ToUpper(bP, s),    *)
(* the hand-modified copy of strings.ToUpper that writes into a buffer the *)
(* case-insensitive matchers keep between cells (CI*Matcher.buf, initial   *)
(* length BufInit) and that the built-in ToUpper of string columns keeps   *)
(* between rows.                                                           *)
(*                                                                         *)
(* A string is a sequence of rune classes [w, uw, ch]: byte width, byte    *)
(* width of the upper-case form, and whether upper-casing changes it.      *)
(* The algorithm, step for step:                                           *)
(*   1. scan to the first rune that changes; none: return s itself;        *)
(*   2. take the buffer if it holds len(s) + UTFMax bytes, else allocate that much;  *)
(*      copy the unchanged prefix, write the first upper-cased rune;       *)
(*   3. for every later rune: an ASCII result is stored directly while     *)
(*      there is room; otherwise, if nbytes + UTFMax >= len(b), the buffer *)
(*      is doubled ONCE and the rune is encoded at b[nbytes:] - which      *)
(*      panics when fewer bytes than the rune's width are left;            *)
(*   4. *bP = b, return b[:nbytes].                                        *)
(* The only state that survives a call is the buffer's length (every byte  *)
(* of b[:nbytes] is written during the call), so a history of calls is a   *)
(* walk over buffer lengths.                                               *)
(*                                                                         *)
(* NoOverrun: no write beyond the buffer in any call of any history.       *)
(* Correct:   the bytes returned have the length of the concatenated       *)
(*            upper-case forms and every rune was written at the offset    *)
(*            the forms before it end at (positions, not contents: the     *)
(*            case mapping itself is the logged reference).                *)
(* A doubling test that forgets UTFMax (PinGrow) must overrun.             *)
(***************************************************************************)
EXTENDS Integers, Sequences, FiniteSets, TLC, Json

CONSTANTS MaxRunes, MaxCalls, Use, BufInit, UTFMax, PinGrow, Emit      \* Use: the rune classes strings are made of

\* rune classes: name, width, width of the upper-case form, changed by upper-casing
Classes == << [n |-> "a",  w |-> 1, uw |-> 1, ch |-> TRUE],     \* a -> A
              [n |-> "A",  w |-> 1, uw |-> 1, ch |-> FALSE],
              [n |-> "e2", w |-> 2, uw |-> 2, ch |-> TRUE],     \* U+00E9 -> U+00C9
              [n |-> "s2", w |-> 2, uw |-> 1, ch |-> TRUE],     \* U+017F long s -> S
              [n |-> "t2", w |-> 2, uw |-> 3, ch |-> TRUE],     \* U+0250 -> U+2C6F
              [n |-> "k3", w |-> 3, uw |-> 3, ch |-> FALSE],    \* U+6F22
              [n |-> "g4", w |-> 4, uw |-> 4, ch |-> FALSE] >>  \* U+1D11E
NC == Len(Classes)
Strs == UNION {[1..k -> Use] : k \in 0..MaxRunes}
ByteLen(s) == LET RECURSIVE F(_) F(i) == IF i > Len(s) THEN 0 ELSE Classes[s[i]].w + F(i + 1) IN F(1)
UpLen(s, upto) == LET RECURSIVE F(_) F(i) == IF i > upto THEN 0 ELSE Classes[s[i]].uw + F(i + 1) IN F(1)

VARIABLES buflen, last, overrun, retlen, offs, calls
vars == <<buflen, last, overrun, retlen, offs, calls>>

Init == buflen = BufInit /\ last = <<>> /\ overrun = FALSE /\ retlen = 0 /\ offs = <<>> /\ calls = 0

FirstChanged(s) == IF \E i \in 1..Len(s) : Classes[s[i]].ch THEN CHOOSE i \in 1..Len(s) : Classes[s[i]].ch /\ \A j \in 1..(i - 1) : ~Classes[s[j]].ch ELSE 0

\* step 3, rune k onwards; st = [len, n, bad, offs]
RECURSIVE Rest(_, _, _)
Rest(s, k, st) ==
  IF k > Len(s) \/ st.bad THEN st
  ELSE LET c == Classes[s[k]] IN
       IF c.uw = 1 /\ st.n < st.len
       THEN Rest(s, k + 1, [st EXCEPT !.n = st.n + 1, !.offs = Append(st.offs, st.n)])
       ELSE LET grow == IF PinGrow THEN st.n >= st.len ELSE st.n + UTFMax >= st.len
                l2 == IF grow THEN 2 * st.len ELSE st.len
            IN IF st.n + c.uw > l2 THEN [st EXCEPT !.bad = TRUE]
               ELSE Rest(s, k + 1, [len |-> l2, n |-> st.n + c.uw, bad |-> FALSE, offs |-> Append(st.offs, st.n)])

Call(s) ==
  LET i == FirstChanged(s) IN
  /\ last' = s /\ calls' = calls + 1
  /\ IF i = 0 THEN /\ retlen' = ByteLen(s) /\ offs' = <<>> /\ UNCHANGED <<buflen, overrun>>     \* s itself is returned
     ELSE LET need == ByteLen(s) + UTFMax
              l0 == IF buflen >= need THEN buflen ELSE need
              pre == ByteLen(SubSeq(s, 1, i - 1))
              c == Classes[s[i]]
              st0 == [len |-> l0, n |-> pre + c.uw, bad |-> pre + c.uw > l0, offs |-> <<pre>>]
              st == Rest(s, i + 1, st0)
          IN /\ overrun' = st.bad
             /\ buflen' = st.len /\ retlen' = st.n /\ offs' = st.offs

Next == ~overrun /\ calls < MaxCalls /\ \E s \in Strs : Call(s)
Spec == Init /\ [][Next]_vars

NoOverrun == ~overrun
Correct == (calls > 0 /\ ~overrun) =>
  /\ retlen = UpLen(last, Len(last))
  /\ LET i == FirstChanged(last) IN
     i # 0 => \A k \in 1..Len(offs) : offs[k] = UpLen(last, i + k - 2)
\* the buffer a call leaves behind is never shorter than the one it found, and never shorter than UTFMax when it was used
BufMonotone == [][buflen' >= buflen]_vars
BufUsable == (calls > 0 /\ FirstChanged(last) # 0 /\ ~overrun) => buflen >= UTFMax

(****************** scenario emission: one per string ******************)
Bytes(cl) == CASE cl.n = "a" -> <<97>> [] cl.n = "A" -> <<65>> [] cl.n = "e2" -> <<195, 169>> [] cl.n = "s2" -> <<197, 191>>
               [] cl.n = "t2" -> <<201, 144>> [] cl.n = "k3" -> <<230, 188, 162>> [] OTHER -> <<240, 157, 132, 158>>
RECURSIVE Flat(_, _)
Flat(s, i) == IF i > Len(s) THEN <<>> ELSE Bytes(Classes[s[i]]) \o Flat(s, i + 1)
S == <<83>>
Filler == [i \in 1..13 |-> 97]       \* thirteen a: makes the matcher's buffer grow between the two occurrences
Leaf(p) == [k |-> "leaf", col |-> S, cmpk |-> "str", cmp |-> "ilike", inv |-> FALSE, arg |-> [t |-> "string", s |-> p]]
EmitScn == (Emit /\ calls = 1) =>
  LET b == Flat(last, 1) IN
  PrintT(<<"SCN", ToJson([steps |-> <<
     [op |-> "New", recv |-> -1, hasorder |-> TRUE, colorder |-> <<S>>,
      data |-> << [name |-> S, kind |-> "string", strs |-> << b, Filler, b, <<97>> \o b, Filler \o b >>] >>],
     [op |-> "Filter", recv |-> 0, clause |-> Leaf(b)],
     [op |-> "Filter", recv |-> 0, clause |-> Leaf(<<37>> \o b)],
     [op |-> "Filter", recv |-> 0, clause |-> Leaf(b \o <<37>>)] >>])>>)
=============================================================================
